//! Bounded bit-set model of the subset of roaring 0.10 used by arroy: universe = ids 0..64.
//! An id >= 64 given to a mutator trips an assertion of the *model* (reported as inconclusive).
#![allow(clippy::all)]
use std::fmt;
use std::io;
use std::ops::{BitAnd, BitOr, BitOrAssign, Sub, SubAssign, BitAndAssign};

pub const UNIVERSE: u32 = 64;

#[derive(Clone, PartialEq, Eq, Default)]
pub struct RoaringBitmap { pub bits: u64 }

#[derive(Debug)] pub struct NonSortedIntegers;
#[derive(Debug)] pub struct ModelError;
impl fmt::Display for ModelError { fn fmt(&self, f: &mut fmt::Formatter) -> fmt::Result { f.write_str("roaring model error") } }
impl std::error::Error for ModelError {}

impl fmt::Debug for RoaringBitmap { fn fmt(&self, f: &mut fmt::Formatter) -> fmt::Result { f.write_str("RoaringBitmap") } }

/// index of the lowest set bit (x != 0), without the cttz intrinsic (Kani 0.68 ICEs on it here)
#[inline] fn tz(mut x: u64) -> u32 { let mut n = 0;
    if x & 0xFFFF_FFFF == 0 { n += 32; x >>= 32; }
    if x & 0xFFFF == 0 { n += 16; x >>= 16; }
    if x & 0xFF == 0 { n += 8; x >>= 8; }
    if x & 0xF == 0 { n += 4; x >>= 4; }
    if x & 0x3 == 0 { n += 2; x >>= 2; }
    if x & 0x1 == 0 { n += 1; }
    n }
/// index of the highest set bit (x != 0)
#[inline] fn hi(mut x: u64) -> u32 { let mut n = 0;
    if x >> 32 != 0 { n += 32; x >>= 32; }
    if x >> 16 != 0 { n += 16; x >>= 16; }
    if x >> 8 != 0 { n += 8; x >>= 8; }
    if x >> 4 != 0 { n += 4; x >>= 4; }
    if x >> 2 != 0 { n += 2; x >>= 2; }
    if x >> 1 != 0 { n += 1; }
    n }
#[inline] fn bit(v: u32) -> u64 { assert!(v < UNIVERSE, "roaring model: id outside the bounded universe"); 1u64 << v }

impl RoaringBitmap {
    pub fn new() -> Self { RoaringBitmap { bits: 0 } }
    pub fn insert(&mut self, v: u32) -> bool { let b = bit(v); let r = self.bits & b == 0; self.bits |= b; r }
    pub fn push(&mut self, v: u32) -> bool { let b = bit(v); if self.bits != 0 && hi(self.bits) >= v { return false; } self.bits |= b; true }
    pub fn remove(&mut self, v: u32) -> bool { if v >= UNIVERSE { return false; } let b = 1u64 << v; let r = self.bits & b != 0; self.bits &= !b; r }
    pub fn contains(&self, v: u32) -> bool { v < UNIVERSE && self.bits & (1u64 << v) != 0 }
    pub fn len(&self) -> u64 { self.bits.count_ones() as u64 }
    pub fn is_empty(&self) -> bool { self.bits == 0 }
    pub fn clear(&mut self) { self.bits = 0 }
    pub fn min(&self) -> Option<u32> { if self.bits == 0 { None } else { Some(tz(self.bits)) } }
    pub fn max(&self) -> Option<u32> { if self.bits == 0 { None } else { Some(hi(self.bits)) } }
    pub fn select(&self, n: u32) -> Option<u32> { let mut b = self.bits; let mut i = 0; while i < n { if b == 0 { return None; } b &= b - 1; i += 1; } if b == 0 { None } else { Some(tz(b)) } }
    pub fn remove_smallest(&mut self, n: u64) { let mut i = 0; while i < n && self.bits != 0 { self.bits &= self.bits - 1; i += 1; } }
    pub fn is_superset(&self, o: &Self) -> bool { o.bits & !self.bits == 0 }
    pub fn iter(&self) -> Iter { Iter { bits: self.bits } }
    pub fn from_sorted_iter<I: IntoIterator<Item = u32>>(it: I) -> Result<Self, NonSortedIntegers> {
        let mut r = RoaringBitmap::new(); for v in it { if !r.push(v) { return Err(NonSortedIntegers); } } Ok(r) }
    pub fn serialized_size(&self) -> usize { 8 }
    pub fn serialize_into<W: io::Write>(&self, mut w: W) -> Result<(), ModelError> { match w.write_all(&self.bits.to_le_bytes()) { Ok(()) => Ok(()), Err(e) => { core::mem::forget(e); Err(ModelError) } } }
    pub fn deserialize_from(bytes: &[u8]) -> Result<Self, ModelError> { if bytes.len() < 8 { return Err(ModelError); } let mut a = [0u8; 8]; let mut i = 0; while i < 8 { a[i] = bytes[i]; i += 1; } Ok(RoaringBitmap { bits: u64::from_le_bytes(a) }) }
    pub fn deserialize_unchecked_from(bytes: &[u8]) -> Result<Self, ModelError> { Self::deserialize_from(bytes) }
}
pub struct Iter { bits: u64 }
impl Iterator for Iter { type Item = u32; fn next(&mut self) -> Option<u32> { if self.bits == 0 { None } else { let t = tz(self.bits); self.bits &= self.bits - 1; Some(t) } } }
impl IntoIterator for RoaringBitmap { type Item = u32; type IntoIter = Iter; fn into_iter(self) -> Iter { Iter { bits: self.bits } } }
impl<'a> IntoIterator for &'a RoaringBitmap { type Item = u32; type IntoIter = Iter; fn into_iter(self) -> Iter { Iter { bits: self.bits } } }
impl FromIterator<u32> for RoaringBitmap { fn from_iter<I: IntoIterator<Item = u32>>(it: I) -> Self { let mut r = RoaringBitmap::new(); for v in it { r.insert(v); } r } }
impl<'a> FromIterator<&'a u32> for RoaringBitmap { fn from_iter<I: IntoIterator<Item = &'a u32>>(it: I) -> Self { let mut r = RoaringBitmap::new(); for v in it { r.insert(*v); } r } }
impl Extend<u32> for RoaringBitmap { fn extend<I: IntoIterator<Item = u32>>(&mut self, it: I) { for v in it { self.insert(v); } } }
macro_rules! binop { ($tr:ident, $f:ident, $op:expr) => {
    impl $tr<RoaringBitmap> for RoaringBitmap { type Output = RoaringBitmap; fn $f(self, o: RoaringBitmap) -> RoaringBitmap { RoaringBitmap { bits: $op(self.bits, o.bits) } } }
    impl $tr<&RoaringBitmap> for RoaringBitmap { type Output = RoaringBitmap; fn $f(self, o: &RoaringBitmap) -> RoaringBitmap { RoaringBitmap { bits: $op(self.bits, o.bits) } } }
    impl $tr<RoaringBitmap> for &RoaringBitmap { type Output = RoaringBitmap; fn $f(self, o: RoaringBitmap) -> RoaringBitmap { RoaringBitmap { bits: $op(self.bits, o.bits) } } }
    impl $tr<&RoaringBitmap> for &RoaringBitmap { type Output = RoaringBitmap; fn $f(self, o: &RoaringBitmap) -> RoaringBitmap { RoaringBitmap { bits: $op(self.bits, o.bits) } } }
} }
binop!(BitOr, bitor, |a: u64, b: u64| a | b);
binop!(BitAnd, bitand, |a: u64, b: u64| a & b);
binop!(Sub, sub, |a: u64, b: u64| a & !b);
impl BitOrAssign<RoaringBitmap> for RoaringBitmap { fn bitor_assign(&mut self, o: RoaringBitmap) { self.bits |= o.bits } }
impl BitOrAssign<&RoaringBitmap> for RoaringBitmap { fn bitor_assign(&mut self, o: &RoaringBitmap) { self.bits |= o.bits } }
impl BitAndAssign<&RoaringBitmap> for RoaringBitmap { fn bitand_assign(&mut self, o: &RoaringBitmap) { self.bits &= o.bits } }
impl SubAssign<RoaringBitmap> for RoaringBitmap { fn sub_assign(&mut self, o: RoaringBitmap) { self.bits &= !o.bits } }
impl SubAssign<&RoaringBitmap> for RoaringBitmap { fn sub_assign(&mut self, o: &RoaringBitmap) { self.bits &= !o.bits } }

/// Only used by `ImmutableLeafs::sample` (not exercised by the harnesses).
#[derive(Default)]
pub struct RoaringTreemap { v: Vec<u64> }
impl RoaringTreemap {
    pub fn new() -> Self { RoaringTreemap { v: Vec::new() } }
    pub fn contains(&self, x: u64) -> bool { self.v.contains(&x) }
    pub fn len(&self) -> u64 { self.v.len() as u64 }
    pub fn insert(&mut self, x: u64) -> bool { if self.contains(x) { false } else { self.v.push(x); true } }
}
impl Extend<u64> for RoaringTreemap { fn extend<I: IntoIterator<Item = u64>>(&mut self, it: I) { for x in it { self.insert(x); } } }
impl IntoIterator for RoaringTreemap { type Item = u64; type IntoIter = std::vec::IntoIter<u64>; fn into_iter(mut self) -> Self::IntoIter { self.v.sort(); self.v.into_iter() } }
