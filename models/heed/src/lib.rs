//! Bounded in-memory model of the subset of heed 0.22 used by arroy.
//! One LMDB database = an unordered table of <= CAP slots; order is the byte order of the 8-byte keys.
//! Trusted contracts: get/put/delete/delete_range/clear/len; cursors remember the key they stand on
//! (next = least key greater than it that carries the prefix); put_with_flags(APPEND) fails with
//! KeyExist iff key <= greatest key present; put fails with MapFull when slots/value capacity are
//! exhausted or when the fault counter says so.
#![allow(clippy::all)]
use std::borrow::Cow;
use std::marker::PhantomData;
use std::ops::{Bound, Deref, RangeBounds};
use std::{error, fmt, io};

/// In real heed this is `Box<dyn Error + Send + Sync>`.  The model keeps no payload: error
/// *values* are never observed by arroy (only the variant is), and moving `Box<dyn Error>`
/// values out of unrolled loops makes CBMC's formula explode (measured: > 7 GB on `Writer::clear`).
#[derive(Debug)]
pub struct BoxedError;
impl<E: Into<Box<dyn error::Error + Send + Sync + 'static>>> From<E> for BoxedError {
    fn from(e: E) -> Self { core::mem::forget(e); BoxedError }
}
pub type Result<T> = std::result::Result<T, Error>;

pub trait BytesEncode<'a> {
    type EItem: ?Sized + 'a;
    fn bytes_encode(item: &'a Self::EItem) -> std::result::Result<Cow<'a, [u8]>, BoxedError>;
}
pub trait BytesDecode<'a> {
    type DItem: 'a;
    fn bytes_decode(bytes: &'a [u8]) -> std::result::Result<Self::DItem, BoxedError>;
}

#[derive(Debug, Clone, Copy, PartialEq, Eq)]
pub enum MdbError { KeyExist, NotFound, MapFull, Other(i32) }
impl fmt::Display for MdbError { fn fmt(&self, f: &mut fmt::Formatter) -> fmt::Result { f.write_str("mdb error") } }
impl error::Error for MdbError {}

#[derive(Debug)]
pub enum Error { Io(IoErr), Mdb(MdbError), Encoding(BoxedError), Decoding(BoxedError), EnvAlreadyOpened }
impl fmt::Display for Error { fn fmt(&self, f: &mut fmt::Formatter) -> fmt::Result { f.write_str("heed model error") } }
impl error::Error for Error {}
impl From<MdbError> for Error { fn from(e: MdbError) -> Error { Error::Mdb(e) } }
#[derive(Debug)] pub struct IoErr;
impl From<io::Error> for Error { fn from(e: io::Error) -> Error { core::mem::forget(e); Error::Io(IoErr) } }

#[derive(Debug, Clone, Copy, PartialEq, Eq)]
pub struct PutFlags(u32);
impl PutFlags {
    pub const APPEND: PutFlags = PutFlags(0x20000);
    pub const fn empty() -> PutFlags { PutFlags(0) }
    pub fn contains(&self, o: PutFlags) -> bool { self.0 & o.0 == o.0 && o.0 != 0 }
}

pub const CAP: usize = 6;
pub const KLEN: usize = 8;
pub const VMAX: usize = 48;

#[inline] fn k64(k: &[u8]) -> u64 { assert!(k.len() == KLEN, "model: keys are 8 bytes");
    ((k[0] as u64) << 56) | ((k[1] as u64) << 48) | ((k[2] as u64) << 40) | ((k[3] as u64) << 32) | ((k[4] as u64) << 24) | ((k[5] as u64) << 16) | ((k[6] as u64) << 8) | (k[7] as u64) }

/// prefix (0..=8 bytes) as (value aligned to the top, mask)
#[inline] fn p64(p: &[u8]) -> (u64, u64) { assert!(p.len() <= KLEN);
    let mut v = 0u64; let mut m = 0u64; let mut i = 0;
    while i < p.len() { v |= (p[i] as u64) << (56 - 8 * i); m |= 0xffu64 << (56 - 8 * i); i += 1; }
    (v, m) }

/// The whole LMDB main database: an unordered slot table; order is by key value (= byte order of 8-byte keys).
pub struct Store {
    pub used: [bool; CAP],
    pub keys: [u64; CAP],
    pub kbytes: [[u8; KLEN]; CAP],
    pub vlen: [usize; CAP],
    pub vals: [[u8; VMAX]; CAP],
    /// number of writes (put/put_current) attempted so far
    pub writes: u32,
    /// fault injection: the `fail_at`-th write (counting from 1) fails with MapFull; 0 = never
    pub fail_at: u32,
}
impl Store {
    pub const fn new() -> Store { Store { used: [false; CAP], keys: [0; CAP], kbytes: [[0; KLEN]; CAP], vlen: [0; CAP], vals: [[0; VMAX]; CAP], writes: 0, fail_at: 0 } }
    pub fn count(&self) -> usize { let mut n = 0; let mut i = 0; while i < CAP { if self.used[i] { n += 1; } i += 1; } n }
    fn find(&self, k: u64) -> Option<usize> { let mut i = 0; while i < CAP { if self.used[i] && self.keys[i] == k { return Some(i); } i += 1; } None }
    /// slot of the smallest key >= k (strict: > k)
    fn seek(&self, k: u64, strict: bool) -> Option<usize> {
        let mut best: Option<usize> = None; let mut i = 0;
        while i < CAP {
            if self.used[i] && (if strict { self.keys[i] > k } else { self.keys[i] >= k }) {
                best = match best { Some(b) if self.keys[b] <= self.keys[i] => Some(b), _ => Some(i) };
            }
            i += 1;
        }
        best
    }
    fn seek_back(&self, k: u64, strict: bool) -> Option<usize> {
        let mut best: Option<usize> = None; let mut i = 0;
        while i < CAP {
            if self.used[i] && (if strict { self.keys[i] < k } else { self.keys[i] <= k }) {
                best = match best { Some(b) if self.keys[b] >= self.keys[i] => Some(b), _ => Some(i) };
            }
            i += 1;
        }
        best
    }
    fn max_key(&self) -> Option<u64> { let mut m: Option<u64> = None; let mut i = 0; while i < CAP { if self.used[i] { m = match m { Some(x) if x >= self.keys[i] => Some(x), _ => Some(self.keys[i]) }; } i += 1; } m }
    pub fn put_raw(&mut self, kb: &[u8], v: &[u8]) -> std::result::Result<(), MdbError> {
        let k = k64(kb);
        self.writes += 1;
        if self.fail_at != 0 && self.writes == self.fail_at { return Err(MdbError::MapFull); }
        if v.len() > VMAX { return Err(MdbError::MapFull); }
        let slot = match self.find(k) { Some(i) => i, None => {
            let mut f = CAP; let mut i = 0; while i < CAP { if !self.used[i] { f = i; break; } i += 1; }
            if f == CAP { return Err(MdbError::MapFull); }
            f } };
        // concrete-slot writes: every array access below has a constant first index
        let mut s = 0;
        while s < CAP {
            if s == slot {
                self.used[s] = true; self.keys[s] = k;
                let mut j = 0; while j < KLEN { self.kbytes[s][j] = kb[j]; j += 1; }
                let n = v.len(); self.vals[s][..n].copy_from_slice(v);
                self.vlen[s] = n;
            }
            s += 1;
        }
        Ok(())
    }
    /// Harness-side constructor: fill slot `s` (a constant) directly, keeping constants visible to the symbolic executor.
    pub fn set_slot(&mut self, s: usize, kb: [u8; KLEN], v: &[u8]) {
        self.used[s] = true; self.keys[s] = k64(&kb); self.kbytes[s] = kb;
        self.vals[s][..v.len()].copy_from_slice(v);
        self.vlen[s] = v.len();
    }
    /// Harness-side constructor with a symbolic value: all VMAX bytes are given, `vlen` of them count.
    pub fn set_slot_sym(&mut self, s: usize, kb: [u8; KLEN], vals: [u8; VMAX], vlen: usize) {
        self.used[s] = true; self.keys[s] = k64(&kb); self.kbytes[s] = kb;
        self.vals[s] = vals;
        self.vlen[s] = vlen;
    }
    pub fn del_at(&mut self, i: usize) { let mut s = 0; while s < CAP { if s == i { self.used[s] = false; } s += 1; } }
    /// Value / key bytes of slot `i`, copied out into a fresh (leaked) buffer with guarded
    /// whole-array copies: the returned slice has a *concrete* base address, so decoding it does
    /// not make CBMC case-split on a symbolic pointer into the slot table.  The copy stays valid
    /// for ever (like LMDB pages within a transaction that does not write).
    pub fn val(&self, i: usize) -> &'static [u8] {
        let mut b = Box::new([0u8; VMAX]); let mut len = 0usize; let mut hit = false;
        let mut s = 0; while s < CAP { if s == i { *b = self.vals[s]; len = self.vlen[s]; hit = true; } s += 1; }
        assert!(hit, "model: bad slot");
        let r: &'static [u8; VMAX] = Box::leak(b);
        &r[..len]
    }
    pub fn key(&self, i: usize) -> &'static [u8] {
        let mut b = Box::new([0u8; KLEN]); let mut hit = false;
        let mut s = 0; while s < CAP { if s == i { *b = self.kbytes[s]; hit = true; } s += 1; }
        assert!(hit, "model: bad slot");
        let r: &'static [u8; KLEN] = Box::leak(b);
        &r[..]
    }
}

pub struct RoTxn<'e> { store: *mut Store, _m: PhantomData<&'e ()> }
pub struct RwTxn<'e> { txn: RoTxn<'e> }
impl<'e> Deref for RwTxn<'e> { type Target = RoTxn<'e>; fn deref(&self) -> &RoTxn<'e> { &self.txn } }
impl<'e> RwTxn<'e> {
    pub fn on(store: &'e mut Store) -> RwTxn<'e> { RwTxn { txn: RoTxn { store, _m: PhantomData } } }
    pub fn store(&self) -> &Store { unsafe { &*self.txn.store } }
}
impl<'e> RoTxn<'e> {
    pub fn on(store: &'e Store) -> RoTxn<'e> { RoTxn { store: store as *const Store as *mut Store, _m: PhantomData } }
    fn s<'t>(&'t self) -> &'t Store { unsafe { &*self.store } }
}

pub struct Database<KC, DC, C = ()> { _m: PhantomData<(KC, DC, C)> }
impl<KC, DC, C> Clone for Database<KC, DC, C> { fn clone(&self) -> Self { *self } }
impl<KC, DC, C> Copy for Database<KC, DC, C> {}
impl<KC, DC, C> fmt::Debug for Database<KC, DC, C> { fn fmt(&self, f: &mut fmt::Formatter) -> fmt::Result { f.write_str("Database") } }

impl<KC, DC, C> Database<KC, DC, C> {
    pub fn model() -> Self { Database { _m: PhantomData } }
    pub fn remap_types<KC2, DC2>(&self) -> Database<KC2, DC2, C> { Database { _m: PhantomData } }
    pub fn remap_key_type<KC2>(&self) -> Database<KC2, DC, C> { Database { _m: PhantomData } }
    pub fn remap_data_type<DC2>(&self) -> Database<KC, DC2, C> { Database { _m: PhantomData } }

    pub fn get<'a, 'txn>(&self, txn: &'txn RoTxn, key: &'a KC::EItem) -> Result<Option<DC::DItem>>
    where KC: BytesEncode<'a>, DC: BytesDecode<'txn> {
        let kb = KC::bytes_encode(key).map_err(Error::Encoding)?;
        let s = txn.s();
        match s.find(k64(&kb)) {
            Some(i) => { let v: &'txn [u8] = s.val(i); DC::bytes_decode(v).map(Some).map_err(Error::Decoding) }
            None => Ok(None),
        }
    }
    pub fn len(&self, txn: &RoTxn) -> Result<u64> { Ok(txn.s().count() as u64) }
    pub fn put<'a>(&self, txn: &mut RwTxn, key: &'a KC::EItem, data: &'a DC::EItem) -> Result<()>
    where KC: BytesEncode<'a>, DC: BytesEncode<'a> {
        self.put_with_flags(txn, PutFlags::empty(), key, data)
    }
    pub fn put_with_flags<'a>(&self, txn: &mut RwTxn, flags: PutFlags, key: &'a KC::EItem, data: &'a DC::EItem) -> Result<()>
    where KC: BytesEncode<'a>, DC: BytesEncode<'a> {
        let kb = KC::bytes_encode(key).map_err(Error::Encoding)?;
        let vb = DC::bytes_encode(data).map_err(Error::Encoding)?;
        let s = unsafe { &mut *txn.txn.store };
        if flags.contains(PutFlags::APPEND) { if let Some(m) = s.max_key() { if m >= k64(&kb) { return Err(Error::Mdb(MdbError::KeyExist)); } } }
        s.put_raw(&kb, &vb).map_err(Error::Mdb)
    }
    pub fn delete<'a>(&self, txn: &mut RwTxn, key: &'a KC::EItem) -> Result<bool> where KC: BytesEncode<'a> {
        let kb = KC::bytes_encode(key).map_err(Error::Encoding)?;
        let s = unsafe { &mut *txn.txn.store };
        match s.find(k64(&kb)) { Some(i) => { s.del_at(i); Ok(true) } None => Ok(false) }
    }
    pub fn delete_range<'a, 'txn, R>(&self, txn: &'txn mut RwTxn, range: &'a R) -> Result<usize>
    where KC: BytesEncode<'a> + BytesDecode<'txn>, R: RangeBounds<KC::EItem> {
        let lo: Option<(u64, bool)> = match range.start_bound() {
            Bound::Included(k) => Some((k64(&KC::bytes_encode(k).map_err(Error::Encoding)?), true)),
            Bound::Excluded(k) => Some((k64(&KC::bytes_encode(k).map_err(Error::Encoding)?), false)),
            Bound::Unbounded => None };
        let hi: Option<(u64, bool)> = match range.end_bound() {
            Bound::Included(k) => Some((k64(&KC::bytes_encode(k).map_err(Error::Encoding)?), true)),
            Bound::Excluded(k) => Some((k64(&KC::bytes_encode(k).map_err(Error::Encoding)?), false)),
            Bound::Unbounded => None };
        let s = unsafe { &mut *txn.txn.store };
        let mut count = 0; let mut i = 0;
        while i < CAP {
            if s.used[i] {
                let k = s.keys[i];
                let ge = match lo { Some((b, inc)) => if inc { k >= b } else { k > b }, None => true };
                let le = match hi { Some((b, inc)) => if inc { k <= b } else { k < b }, None => true };
                if ge && le { s.del_at(i); count += 1; }
            }
            i += 1;
        }
        Ok(count)
    }
    /// Ascending iteration over the keys inside `range` (heed::Database::range).
    pub fn range<'a, 'txn, R>(&self, txn: &'txn RoTxn, range: &'a R) -> Result<RoRange<'txn, KC, DC>>
    where KC: BytesEncode<'a>, R: RangeBounds<KC::EItem> {
        let lo: Option<(u64, bool)> = match range.start_bound() {
            Bound::Included(k) => Some((k64(&KC::bytes_encode(k).map_err(Error::Encoding)?), true)),
            Bound::Excluded(k) => Some((k64(&KC::bytes_encode(k).map_err(Error::Encoding)?), false)),
            Bound::Unbounded => None };
        let hi: Option<(u64, bool)> = match range.end_bound() {
            Bound::Included(k) => Some((k64(&KC::bytes_encode(k).map_err(Error::Encoding)?), true)),
            Bound::Excluded(k) => Some((k64(&KC::bytes_encode(k).map_err(Error::Encoding)?), false)),
            Bound::Unbounded => None };
        Ok(RoRange { store: txn.store, lo, hi, started: false, cur: 0, _m: PhantomData })
    }
    pub fn range_mut<'a, 'txn, R>(&self, txn: &'txn mut RwTxn, range: &'a R) -> Result<RwRange<'txn, KC, DC>>
    where KC: BytesEncode<'a>, R: RangeBounds<KC::EItem> {
        let ro = self.range(&txn.txn, range)?;
        Ok(RwRange { r: RoRange { store: ro.store, lo: ro.lo, hi: ro.hi, started: false, cur: 0, _m: PhantomData } })
    }
    pub fn first<'txn>(&self, txn: &'txn RoTxn) -> Result<Option<(KC::DItem, DC::DItem)>>
    where KC: BytesDecode<'txn>, DC: BytesDecode<'txn> {
        match txn.s().seek(0, false) { Some(i) => decode_pair::<KC, DC>(txn.store, i).map(Some), None => Ok(None) }
    }
    pub fn last<'txn>(&self, txn: &'txn RoTxn) -> Result<Option<(KC::DItem, DC::DItem)>>
    where KC: BytesDecode<'txn>, DC: BytesDecode<'txn> {
        let s = txn.s();
        match s.max_key() { Some(k) => match s.find(k) { Some(i) => decode_pair::<KC, DC>(txn.store, i).map(Some), None => Ok(None) }, None => Ok(None) }
    }
    pub fn get_greater_than_or_equal_to<'a, 'txn>(&self, txn: &'txn RoTxn, key: &'a KC::EItem) -> Result<Option<(KC::DItem, DC::DItem)>>
    where KC: BytesEncode<'a> + BytesDecode<'txn>, DC: BytesDecode<'txn> {
        let kb = KC::bytes_encode(key).map_err(Error::Encoding)?;
        match txn.s().seek(k64(&kb), false) { Some(i) => decode_pair::<KC, DC>(txn.store, i).map(Some), None => Ok(None) }
    }
    pub fn get_greater_than<'a, 'txn>(&self, txn: &'txn RoTxn, key: &'a KC::EItem) -> Result<Option<(KC::DItem, DC::DItem)>>
    where KC: BytesEncode<'a> + BytesDecode<'txn>, DC: BytesDecode<'txn> {
        let kb = KC::bytes_encode(key).map_err(Error::Encoding)?;
        match txn.s().seek(k64(&kb), true) { Some(i) => decode_pair::<KC, DC>(txn.store, i).map(Some), None => Ok(None) }
    }
    pub fn get_lower_than_or_equal_to<'a, 'txn>(&self, txn: &'txn RoTxn, key: &'a KC::EItem) -> Result<Option<(KC::DItem, DC::DItem)>>
    where KC: BytesEncode<'a> + BytesDecode<'txn>, DC: BytesDecode<'txn> {
        let kb = KC::bytes_encode(key).map_err(Error::Encoding)?;
        match txn.s().seek_back(k64(&kb), false) { Some(i) => decode_pair::<KC, DC>(txn.store, i).map(Some), None => Ok(None) }
    }
    pub fn get_lower_than<'a, 'txn>(&self, txn: &'txn RoTxn, key: &'a KC::EItem) -> Result<Option<(KC::DItem, DC::DItem)>>
    where KC: BytesEncode<'a> + BytesDecode<'txn>, DC: BytesDecode<'txn> {
        let kb = KC::bytes_encode(key).map_err(Error::Encoding)?;
        match txn.s().seek_back(k64(&kb), true) { Some(i) => decode_pair::<KC, DC>(txn.store, i).map(Some), None => Ok(None) }
    }
    pub fn is_empty(&self, txn: &RoTxn) -> Result<bool> { Ok(txn.s().count() == 0) }
    pub fn clear(&self, txn: &mut RwTxn) -> Result<()> { let s = unsafe { &mut *txn.txn.store }; let mut i = 0; while i < CAP { s.used[i] = false; i += 1; } Ok(()) }
    pub fn iter<'txn>(&self, txn: &'txn RoTxn) -> Result<RoIter<'txn, KC, DC>> {
        Ok(RoIter { c: Cursor { store: txn.store, pv: 0, pm: 0, started: false, cur: 0, rev: false }, _m: PhantomData })
    }
    pub fn prefix_iter<'a, 'txn>(&self, txn: &'txn RoTxn, prefix: &'a KC::EItem) -> Result<RoPrefix<'txn, KC, DC>>
    where KC: BytesEncode<'a> {
        let p = KC::bytes_encode(prefix).map_err(Error::Encoding)?; let (pv, pm) = p64(&p);
        Ok(RoIter { c: Cursor { store: txn.store, pv, pm, started: false, cur: 0, rev: false }, _m: PhantomData })
    }
    pub fn rev_prefix_iter<'a, 'txn>(&self, txn: &'txn RoTxn, prefix: &'a KC::EItem) -> Result<RoRevPrefix<'txn, KC, DC>>
    where KC: BytesEncode<'a> {
        let p = KC::bytes_encode(prefix).map_err(Error::Encoding)?; let (pv, pm) = p64(&p);
        Ok(RoIter { c: Cursor { store: txn.store, pv, pm, started: false, cur: 0, rev: true }, _m: PhantomData })
    }
    pub fn rev_iter<'txn>(&self, txn: &'txn RoTxn) -> Result<RoRevIter<'txn, KC, DC>> {
        Ok(RoIter { c: Cursor { store: txn.store, pv: 0, pm: 0, started: false, cur: 0, rev: true }, _m: PhantomData })
    }
    pub fn prefix_iter_mut<'a, 'txn>(&self, txn: &'txn mut RwTxn, prefix: &'a KC::EItem) -> Result<RwPrefix<'txn, KC, DC>>
    where KC: BytesEncode<'a> {
        let p = KC::bytes_encode(prefix).map_err(Error::Encoding)?; let (pv, pm) = p64(&p);
        Ok(RwPrefix { c: Cursor { store: txn.txn.store, pv, pm, started: false, cur: 0, rev: false }, _m: PhantomData })
    }
}

/// LMDB-like cursor: remembers the key it stands on; next = smallest key greater than it.
struct Cursor { store: *mut Store, pv: u64, pm: u64, started: bool, cur: u64, rev: bool }
impl Cursor {
    fn advance(&mut self) -> Option<usize> {
        let s = unsafe { &*self.store };
        let slot = if self.rev {
            if !self.started { self.started = true; s.seek_back(self.pv | !self.pm, false) } else { s.seek_back(self.cur, true) }
        } else if !self.started { self.started = true; s.seek(self.pv, false) } else { s.seek(self.cur, true) };
        match slot { Some(i) if s.keys[i] & self.pm == self.pv => { self.cur = s.keys[i]; Some(i) } _ => None }
    }
    fn on(&self) -> Option<usize> { if !self.started { return None; } unsafe { &*self.store }.find(self.cur) }
}

pub struct RoIter<'txn, KC, DC> { c: Cursor, _m: PhantomData<(&'txn (), KC, DC)> }
pub type RoPrefix<'txn, KC, DC> = RoIter<'txn, KC, DC>;
pub type RoRevPrefix<'txn, KC, DC> = RoIter<'txn, KC, DC>;
pub type RoRevIter<'txn, KC, DC> = RoIter<'txn, KC, DC>;
impl<'txn, KC, DC> RoIter<'txn, KC, DC> {
    pub fn remap_types<KC2, DC2>(self) -> RoIter<'txn, KC2, DC2> { RoIter { c: self.c, _m: PhantomData } }
    pub fn remap_key_type<KC2>(self) -> RoIter<'txn, KC2, DC> { self.remap_types() }
    pub fn remap_data_type<DC2>(self) -> RoIter<'txn, KC, DC2> { self.remap_types() }
}
fn decode_pair<'txn, KC: BytesDecode<'txn>, DC: BytesDecode<'txn>>(store: *mut Store, i: usize) -> Result<(KC::DItem, DC::DItem)> {
    let s: &'txn Store = unsafe { &*store };
    let k = KC::bytes_decode(s.key(i)).map_err(Error::Decoding)?;
    let v = DC::bytes_decode(s.val(i)).map_err(Error::Decoding)?;
    Ok((k, v))
}
impl<'txn, KC: BytesDecode<'txn>, DC: BytesDecode<'txn>> Iterator for RoIter<'txn, KC, DC> {
    type Item = Result<(KC::DItem, DC::DItem)>;
    fn next(&mut self) -> Option<Self::Item> { let i = self.c.advance()?; Some(decode_pair::<KC, DC>(self.c.store, i)) }
}

pub struct RoRange<'txn, KC, DC> { store: *mut Store, lo: Option<(u64, bool)>, hi: Option<(u64, bool)>, started: bool, cur: u64, _m: PhantomData<(&'txn (), KC, DC)> }
impl<'txn, KC, DC> RoRange<'txn, KC, DC> {
    pub fn remap_types<KC2, DC2>(self) -> RoRange<'txn, KC2, DC2> { RoRange { store: self.store, lo: self.lo, hi: self.hi, started: self.started, cur: self.cur, _m: PhantomData } }
    pub fn remap_key_type<KC2>(self) -> RoRange<'txn, KC2, DC> { self.remap_types() }
    pub fn remap_data_type<DC2>(self) -> RoRange<'txn, KC, DC2> { self.remap_types() }
}
impl<'txn, KC: BytesDecode<'txn>, DC: BytesDecode<'txn>> Iterator for RoRange<'txn, KC, DC> {
    type Item = Result<(KC::DItem, DC::DItem)>;
    fn next(&mut self) -> Option<Self::Item> {
        let s = unsafe { &*self.store };
        let slot = if !self.started {
            self.started = true;
            match self.lo { Some((b, inc)) => s.seek(b, !inc), None => s.seek(0, false) }
        } else { s.seek(self.cur, true) };
        let i = slot?;
        let k = s.keys[i];
        let inside = match self.hi { Some((b, inc)) => if inc { k <= b } else { k < b }, None => true };
        if !inside { return None; }
        self.cur = k;
        Some(decode_pair::<KC, DC>(self.store, i))
    }
}

pub struct RwRange<'txn, KC, DC> { r: RoRange<'txn, KC, DC> }
impl<'txn, KC, DC> RwRange<'txn, KC, DC> {
    pub fn remap_types<KC2, DC2>(self) -> RwRange<'txn, KC2, DC2> { RwRange { r: self.r.remap_types() } }
    pub fn remap_key_type<KC2>(self) -> RwRange<'txn, KC2, DC> { self.remap_types() }
    pub fn remap_data_type<DC2>(self) -> RwRange<'txn, KC, DC2> { self.remap_types() }
    fn on(&self) -> Option<usize> { if !self.r.started { return None; } unsafe { &*self.r.store }.find(self.r.cur) }
    pub unsafe fn del_current(&mut self) -> Result<bool> {
        match self.on() { Some(i) => { (&mut *self.r.store).del_at(i); Ok(true) } None => Ok(false) }
    }
    pub unsafe fn put_current<'a>(&mut self, key: &'a KC::EItem, data: &'a DC::EItem) -> Result<bool>
    where KC: BytesEncode<'a>, DC: BytesEncode<'a> {
        self.put_current_with_options::<DC>(PutFlags::empty(), key, data).map(|()| true)
    }
    pub unsafe fn put_current_with_options<'a, NDC>(&mut self, _flags: PutFlags, key: &'a KC::EItem, data: &'a NDC::EItem) -> Result<()>
    where KC: BytesEncode<'a>, NDC: BytesEncode<'a> {
        let kb = KC::bytes_encode(key).map_err(Error::Encoding)?;
        let vb = NDC::bytes_encode(data).map_err(Error::Encoding)?;
        let s = &mut *self.r.store;
        s.writes += 1;
        if s.fail_at != 0 && s.writes == s.fail_at { return Err(Error::Mdb(MdbError::MapFull)); }
        match self.on() {
            Some(i) if s.keys[i] == k64(&kb) => { if vb.len() > VMAX { return Err(Error::Mdb(MdbError::MapFull)); }
                let n = vb.len(); let mut t = 0; while t < CAP { if t == i { s.vals[t][..n].copy_from_slice(&vb); s.vlen[t] = n; } t += 1; } Ok(()) }
            _ => Err(Error::Mdb(MdbError::Other(22))),
        }
    }
}
impl<'txn, KC: BytesDecode<'txn>, DC: BytesDecode<'txn>> Iterator for RwRange<'txn, KC, DC> {
    type Item = Result<(KC::DItem, DC::DItem)>;
    fn next(&mut self) -> Option<Self::Item> { self.r.next() }
}

pub struct RwPrefix<'txn, KC, DC> { c: Cursor, _m: PhantomData<(&'txn (), KC, DC)> }
impl<'txn, KC, DC> RwPrefix<'txn, KC, DC> {
    pub fn remap_types<KC2, DC2>(self) -> RwPrefix<'txn, KC2, DC2> { RwPrefix { c: self.c, _m: PhantomData } }
    pub fn remap_key_type<KC2>(self) -> RwPrefix<'txn, KC2, DC> { self.remap_types() }
    pub fn remap_data_type<DC2>(self) -> RwPrefix<'txn, KC, DC2> { self.remap_types() }
    pub unsafe fn del_current(&mut self) -> Result<bool> {
        match self.c.on() { Some(i) => { (&mut *self.c.store).del_at(i); Ok(true) } None => Ok(false) }
    }
    pub unsafe fn put_current<'a>(&mut self, key: &'a KC::EItem, data: &'a DC::EItem) -> Result<bool>
    where KC: BytesEncode<'a>, DC: BytesEncode<'a> {
        self.put_current_with_options::<DC>(PutFlags::empty(), key, data).map(|()| true)
    }
    pub unsafe fn put_current_with_options<'a, NDC>(&mut self, _flags: PutFlags, key: &'a KC::EItem, data: &'a NDC::EItem) -> Result<()>
    where KC: BytesEncode<'a>, NDC: BytesEncode<'a> {
        let kb = KC::bytes_encode(key).map_err(Error::Encoding)?;
        let vb = NDC::bytes_encode(data).map_err(Error::Encoding)?;
        let s = &mut *self.c.store;
        s.writes += 1;
        if s.fail_at != 0 && s.writes == s.fail_at { return Err(Error::Mdb(MdbError::MapFull)); }
        match self.c.on() {
            Some(i) if s.keys[i] == k64(&kb) => { if vb.len() > VMAX { return Err(Error::Mdb(MdbError::MapFull)); }
                let n = vb.len(); let mut t = 0; while t < CAP { if t == i { s.vals[t][..n].copy_from_slice(&vb); s.vlen[t] = n; } t += 1; } Ok(()) }
            _ => Err(Error::Mdb(MdbError::Other(22))),
        }
    }
}
impl<'txn, KC: BytesDecode<'txn>, DC: BytesDecode<'txn>> Iterator for RwPrefix<'txn, KC, DC> {
    type Item = Result<(KC::DItem, DC::DItem)>;
    fn next(&mut self) -> Option<Self::Item> { let i = self.c.advance()?; Some(decode_pair::<KC, DC>(self.c.store, i)) }
}

pub mod types {
    use super::*;
    pub enum Bytes {}
    impl<'a> BytesEncode<'a> for Bytes { type EItem = [u8]; fn bytes_encode(item: &'a [u8]) -> std::result::Result<Cow<'a, [u8]>, BoxedError> { Ok(Cow::Borrowed(item)) } }
    impl<'a> BytesDecode<'a> for Bytes { type DItem = &'a [u8]; fn bytes_decode(bytes: &'a [u8]) -> std::result::Result<&'a [u8], BoxedError> { Ok(bytes) } }
    pub enum DecodeIgnore {}
    impl BytesDecode<'_> for DecodeIgnore { type DItem = (); fn bytes_decode(_b: &[u8]) -> std::result::Result<(), BoxedError> { Ok(()) } }
    pub enum Unit {}
    impl<'a> BytesEncode<'a> for Unit { type EItem = (); fn bytes_encode(_i: &'a ()) -> std::result::Result<Cow<'a, [u8]>, BoxedError> { Ok(Cow::Borrowed(&[])) } }
    impl BytesDecode<'_> for Unit { type DItem = (); fn bytes_decode(b: &[u8]) -> std::result::Result<(), BoxedError> { if b.is_empty() { Ok(()) } else { Err(BoxedError) } } }
    pub struct LazyDecode<C>(PhantomData<C>);
    impl<'a, C: 'static> BytesDecode<'a> for LazyDecode<C> { type DItem = Lazy<'a, C>; fn bytes_decode(bytes: &'a [u8]) -> std::result::Result<Lazy<'a, C>, BoxedError> { Ok(Lazy { data: bytes, _m: PhantomData }) } }
    #[derive(Copy, Clone)]
    pub struct Lazy<'a, C> { data: &'a [u8], _m: PhantomData<C> }
    impl<'a, C> Lazy<'a, C> { pub fn remap<NC>(&self) -> Lazy<'a, NC> { Lazy { data: self.data, _m: PhantomData } } }
    impl<'a, C: BytesDecode<'a>> Lazy<'a, C> { pub fn decode(&self) -> std::result::Result<C::DItem, BoxedError> { C::bytes_decode(self.data) } }
}
