//! Model of `tracing`: logging macros expand to nothing (logging is not the subject of any
//! property; the real callsite machinery reaches `catch_unwind`, on which Kani 0.68 ICEs).
#[macro_export]
macro_rules! trace { ($($t:tt)*) => {{}}; }
#[macro_export]
macro_rules! debug { ($($t:tt)*) => {{}}; }
#[macro_export]
macro_rules! info { ($($t:tt)*) => {{}}; }
#[macro_export]
macro_rules! warn { ($($t:tt)*) => {{}}; }
#[macro_export]
macro_rules! error { ($($t:tt)*) => {{}}; }
