//! Model of memmap2::Mmap over the model file.
use std::io;
use std::ops::Deref;
pub enum Advice { Sequential }
pub struct Mmap { len: usize, data: [u8; tempfile::FCAP] }
impl Mmap {
    pub unsafe fn map(f: &tempfile::File) -> io::Result<Mmap> { Ok(Mmap { len: f.len, data: f.data }) }
    pub fn advise(&self, _a: Advice) -> io::Result<()> { Ok(()) }
}
impl Deref for Mmap { type Target = [u8]; fn deref(&self) -> &[u8] { &self.data[..self.len] } }
