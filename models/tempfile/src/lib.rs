//! Model of tempfile: an anonymous in-memory file with bounded capacity (probe version).
use std::io;
use std::path::Path;
pub const FCAP: usize = 96;
pub struct File { pub len: usize, pub data: [u8; FCAP] }
pub fn tempfile() -> io::Result<File> { Ok(File { len: 0, data: [0; FCAP] }) }
pub fn tempfile_in<P: AsRef<Path>>(_p: P) -> io::Result<File> { tempfile() }
impl io::Write for File {
    fn write(&mut self, buf: &[u8]) -> io::Result<usize> {
        assert!(self.len + buf.len() <= FCAP, "tempfile model: capacity exceeded");
        self.data[self.len..self.len + buf.len()].copy_from_slice(buf);
        self.len += buf.len(); Ok(buf.len())
    }
    fn flush(&mut self) -> io::Result<()> { Ok(()) }
}
/// Pass-through stand-in for std::io::BufWriter (the real one adds an 8 KiB heap buffer that only costs solver time).
pub struct BufWriter<W> { inner: W }
impl<W: io::Write> BufWriter<W> {
    pub fn new(inner: W) -> Self { BufWriter { inner } }
    pub fn into_inner(self) -> Result<W, IntoInnerError> { Ok(self.inner) }
}
impl<W: io::Write> io::Write for BufWriter<W> {
    fn write(&mut self, buf: &[u8]) -> io::Result<usize> { self.inner.write(buf) }
    fn write_all(&mut self, buf: &[u8]) -> io::Result<()> { self.inner.write(buf).map(|_| ()) }
    fn flush(&mut self) -> io::Result<()> { Ok(()) }
}
pub struct IntoInnerError;
impl IntoInnerError { pub fn into_error(self) -> io::Error { io::Error::from(io::ErrorKind::Other) } }
