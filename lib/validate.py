import json, sys, jsonschema, glob
m = json.load(open('/verif/MANIFEST.json'))
jsonschema.validate(m, json.load(open('/root/.vp/MANIFEST.schema.json')))
es = json.load(open('/root/.vp/EVIDENCE.schema.json'))
for f in sorted(glob.glob('/verif/evidence/*.json')):
    jsonschema.validate(json.load(open(f)), es)
    print('ok', f)
ids = {json.loads(l)['id'] for l in open('/verif/properties.jsonl')}
claimed = {c['property_id'] for c in m['checks']}
na = {n['property_id'] for n in m.get('not_applicable', [])}
assert claimed | na == ids and not (claimed & na), (ids - claimed - na, claimed & na)
print('manifest ok', len(claimed), 'claimed', len(na), 'n/a')
