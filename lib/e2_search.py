"""E2 R-obligation on Reader::nns_by_leaf (C02, C03): the whole function is executed from its MIR
over every forest of a bounded family satisfying Inv, with symbolic count / budget / oversampling /
candidate filter, symbolic per-item distances (an uninterpreted function of the item id) and
symbolic per-split margins.  std containers are modelled by their contracts (BinaryHeap::pop =
greatest element by Ord; sort_unstable + dedup = the set of ids; Reverse flips the order)."""
import re
import time

import z3

from mirsym import engine as E
from mirsym import models as M
from mirsym import world as W
from mirsym.engine import BV, Agg, Cell, FnItem, Opaque, Ref, PANIC
from mirsym.mir import find_fn
from mirsym.models import U, bit, fork_on, mk_option, one, popcount, unit, BitIter

import e2_tree

F32 = z3.Float32()
DIST = z3.Function("built_distance", z3.BitVecSort(32), F32)
NORM = z3.Function("normalized_distance", F32, F32)
MARGIN = z3.Function("margin_at_split", z3.IntSort(), F32)

INLINE = e2_tree.INLINE + [
    (re.compile(r"^<D as Distance>::pq_distance$"), r"^(distance::)?Distance::pq_distance$"),
    (re.compile(r"^NodeId::unwrap_item$"), r"node_id::.*::unwrap_item$"),
]


# ---- OrderedFloat / tuple orders
def of_gt(x, y):
    return z3.Or(z3.And(z3.fpIsNaN(x), z3.Not(z3.fpIsNaN(y))),
                 z3.And(z3.Not(z3.fpIsNaN(x)), z3.Not(z3.fpIsNaN(y)), z3.fpGT(x, y)))


def of_eq(x, y):
    return z3.Or(z3.And(z3.fpIsNaN(x), z3.fpIsNaN(y)), z3.fpEQ(x, y))


def key_float(elem):
    t = elem.f[0] if elem.kind == "Reverse" else elem
    return t.f[0].f[0]


def key_second(elem):
    t = elem.f[0] if elem.kind == "Reverse" else elem
    s = t.f[1]
    if isinstance(s, Agg):   # NodeId: order by (mode, item)
        return z3.Concat(z3.Extract(7, 0, s.f[0].disc), s.f[1])
    return s


def elem_gt(a, b):
    """a > b in the element type's Ord (tuples lexicographic; Reverse flips)."""
    fa, fb, sa, sb = key_float(a), key_float(b), key_second(a), key_second(b)
    g = z3.Or(of_gt(fa, fb), z3.And(of_eq(fa, fb), z3.UGT(sa, sb)))
    l = z3.Or(of_gt(fb, fa), z3.And(of_eq(fa, fb), z3.ULT(sa, sb)))
    return l if a.kind == "Reverse" else g


def vec_of(eng, ref):
    v = eng.deref(ref) if isinstance(ref, Ref) else ref
    while isinstance(v, Ref):
        v = eng.deref(v)
    if not (isinstance(v, Agg) and "items" in v.f):
        raise E.Unknown("expected a record vector, got " + repr(v)[:60])
    return v


LESS, EQUAL, GREATER = BV((1 << 64) - 1, 64), BV(0, 64), BV(1, 64)


def tuple_partial_cmp(eng, st, x, y):
    """<(A, B) as PartialOrd>::partial_cmp for A, B in {f32, u32}: lexicographic, None on a NaN."""
    def cmp_terms(p, q):
        if z3.is_fp(p):
            return z3.Or(z3.fpIsNaN(p), z3.fpIsNaN(q)), z3.fpLT(p, q), z3.fpEQ(p, q)
        return z3.BoolVal(False), z3.ULT(p, q), p == q
    n0, l0, e0 = cmp_terms(x.f[0], y.f[0])
    n1, l1, e1 = cmp_terms(x.f[1], y.f[1])
    none = z3.Or(n0, z3.And(e0, n1))
    less = z3.And(z3.Not(none), z3.Or(l0, z3.And(e0, l1)))
    equal = z3.And(z3.Not(none), e0, e1)
    greater = z3.And(z3.Not(none), z3.Not(less), z3.Not(equal))
    cases = [(none, lambda: mk_option()), (less, lambda: mk_option(Agg("Ordering", LESS, {}))),
             (equal, lambda: mk_option(Agg("Ordering", EQUAL, {}))),
             (greater, lambda: mk_option(Agg("Ordering", GREATER, {})))]
    feas = [(c, mk) for c, mk in cases if eng.feasible(st.pc, c)]
    outs = []
    for k, (c, mk) in enumerate(feas):
        s2 = st if k == len(feas) - 1 else st.clone()
        outs.append((mk(), c, s2))
    return outs


def sort_step(eng, st, job, last):
    """Insertion sort of the vector behind job['ref'] with the comparator closure job['f']."""
    vec = vec_of(eng, job["ref"])
    items = vec.f["items"]
    srt = job["sorted"]
    if last is not None:
        d = z3.simplify(last.disc) if isinstance(last, Agg) else None
        if d is None or not z3.is_bv_value(d):
            raise E.Unknown("comparator returned a non-concrete Ordering")
        if d.as_long() == LESS.as_long():       # x < sorted[j]: keep scanning to the left
            job["j"] -= 1
        else:
            srt.insert(job["j"] + 1, items[job["i"]])
            job["i"] += 1
            job["j"] = len(srt) - 1
    while job["i"] < len(items):
        if job["j"] < 0:
            srt.insert(0, items[job["i"]])
            job["i"] += 1
            job["j"] = len(srt) - 1
            continue
        return ("call", job["f"], [Ref(Cell(items[job["i"]])), Ref(Cell(srt[job["j"]]))])
    vec.f["items"] = list(srt)
    return ("done", one(job["ret"]))


def collect_step(eng, st, job, last):
    if last is not None:
        job["out"].append(last)
    k = len(job["out"])
    if k < len(job["items"]):
        return ("call", job["f"], [job["items"][k]])
    return ("done", one(Agg("Vec", None, {"items": list(job["out"])})))



def heap_pop(eng, st, ref):
    heap = eng.deref(ref)
    items = heap.f["items"]
    if not items:
        return [(mk_option(), None, None)]
    outs = []
    n = len(items)
    cands = []
    for i in range(n):
        cond = z3.And([elem_gt(items[i], items[j]) for j in range(n) if j != i]) if n > 1 else z3.BoolVal(True)
        # ties (equal elements) are broken by position so that exactly one candidate is chosen
        tie = z3.And([z3.Or(elem_gt(items[i], items[j]), z3.And(z3.Not(elem_gt(items[j], items[i])), i < j))
                      for j in range(n) if j != i]) if n > 1 else z3.BoolVal(True)
        cands.append((i, tie))
    feas = [(i, c) for i, c in cands if eng.feasible(st.pc, c)]
    for k, (i, c) in enumerate(feas):
        s2 = st if k == len(feas) - 1 else st.clone()
        h2 = eng.deref(ref if s2 is st else W._ref_in(eng, st, s2, ref))
        elem = h2.f["items"][i]
        h2.f["items"] = h2.f["items"][:i] + h2.f["items"][i + 1:]
        outs.append((mk_option(elem), c, s2))
    return outs


def models_for_search(env_roots):
    ms = []

    def reg(pat):
        def deco(f):
            ms.append((re.compile(pat), f))
            return f
        return deco

    # ---- the visited bag (Vec<u32> nns): count + set + "saw a duplicate"
    @reg(r"^Vec::<u32>::new$")
    def _(eng, st, callee, a, ty):
        return one(Agg("IdBag", None, {"count": BV(0, 64), "bits": BV(0, U)}))

    @reg(r"^Vec::<u32>::len$")
    def _(eng, st, callee, a, ty):
        return one(eng.deref(a[0]).f["count"])

    @reg(r"^Vec::<u32>::push$")
    def _(eng, st, callee, a, ty):
        bag = eng.deref(a[0])
        bag.f["count"] = bag.f["count"] + 1
        bag.f["bits"] = bag.f["bits"] | bit(a[1])
        return one(unit())

    @reg(r"^<Vec<u32> as Extend<u32>>::extend::<roaring::bitmap::Iter<'_>>$")
    def _(eng, st, callee, a, ty):
        bag = eng.deref(a[0])
        b = a[1].data.bits
        bag.f["count"] = bag.f["count"] + popcount(b, 64)
        bag.f["bits"] = bag.f["bits"] | b
        return one(unit())

    @reg(r"^<Vec<u32> as DerefMut>::deref_mut$")
    def _(eng, st, callee, a, ty):
        return one(a[0])

    @reg(r"^core::slice::<impl \[u32\]>::sort_unstable$")
    def _(eng, st, callee, a, ty):
        st.env["sorted"] = True
        return one(unit())

    @reg(r"^Vec::<u32>::dedup$")
    def _(eng, st, callee, a, ty):
        bag = eng.deref(a[0])
        if not st.env.get("sorted"):
            raise E.Unknown("dedup without a preceding sort: the set abstraction of the visited list does not apply")
        bag.f["count"] = popcount(bag.f["bits"], 64)
        st.env["deduped"] = True
        return one(unit())

    @reg(r"^<Vec<u32> as IntoIterator>::into_iter$")
    def _(eng, st, callee, a, ty):
        bag = a[0]
        if not (st.env.get("sorted") and st.env.get("deduped")):
            raise E.Unknown("iteration over the visited list before sort+dedup")
        return one(Opaque("BitIter", BitIter(bag.f["bits"])))

    @reg(r"^<std::vec::IntoIter<u32> as Iterator>::next$")
    def _(eng, st, callee, a, ty):
        return M.m_bm_iter_next(eng, st, callee, a, ty)

    # ---- generic growable vectors of records (list of symbolic records; lengths concrete per path)
    REC = r"(\((u32, f32|f32, u32)\)|Reverse<\(OrderedFloat<f32>, u32\)>)"

    @reg(r"^Vec::<" + REC + r">::(new|with_capacity)$")
    def _(eng, st, callee, a, ty):
        return one(Agg("Vec", None, {"items": []}))

    @reg(r"^Vec::<" + REC + r">::push$")
    def _(eng, st, callee, a, ty):
        eng.deref(a[0]).f["items"].append(a[1])
        return one(unit())

    @reg(r"^Vec::<" + REC + r">::len$|^core::slice::<impl \[" + REC + r"\]>::len$")
    def _(eng, st, callee, a, ty):
        return one(BV(len(vec_of(eng, a[0]).f["items"]), 64))

    @reg(r"^Vec::<" + REC + r">::is_empty$|^core::slice::<impl \[" + REC + r"\]>::is_empty$")
    def _(eng, st, callee, a, ty):
        return one(z3.BoolVal(len(vec_of(eng, a[0]).f["items"]) == 0))

    @reg(r"^<Vec<" + REC + r"> as Deref(Mut)?>::deref(_mut)?$")
    def _(eng, st, callee, a, ty):
        return one(a[0])

    @reg(r"^Vec::<" + REC + r">::truncate$")
    def _(eng, st, callee, a, ty):
        n = len(vec_of(eng, a[0]).f["items"])
        outs = []
        for s2, k in M.concretize(eng, st, a[1], range(n)):
            if k is not None:
                v = vec_of(eng, a[0] if s2 is st else W._ref_in(eng, st, s2, a[0]))
                v.f["items"] = v.f["items"][:k]
            outs.append((unit(), None, s2))
        return outs

    @reg(r"^<\((f32, u32|u32, f32)\) as PartialOrd>::partial_cmp$")
    def _(eng, st, callee, a, ty):
        x, y = eng.deref(a[0]), eng.deref(a[1])
        return tuple_partial_cmp(eng, st, x, y)

    @reg(r"^core::slice::<impl \[" + REC + r"\]>::(sort_unstable_by|sort_by|select_nth_unstable_by)::<")
    def _(eng, st, callee, a, ty):
        # Any correct implementation yields the sorted sequence when the comparator is a total
        # order; insertion sort driven by the real comparator closure is one such implementation
        # (and a fully sorted slice satisfies select_nth's contract).  A comparator panic ends the path.
        is_select = "select_nth" in callee
        vec = vec_of(eng, a[0])
        n = len(vec.f["items"])
        if is_select:
            outs = []
            for s2, k in M.concretize(eng, st, a[1], range(n)):
                if k is None:
                    outs.append((PANIC, None, s2))     # index out of bounds panics
                    continue
                r = a[0] if s2 is st else W._ref_in(eng, st, s2, a[0])
                f = a[2]
                sub = M.hof_start(eng, s2, sort_step, {"ref": r, "f": f, "sorted": [], "i": 0, "j": -1,
                                                        "ret": Opaque("select_nth result")})
                outs.extend((v, c, s3 if s3 is not None else s2) for v, c, s3 in sub)
            return outs
        return M.hof_start(eng, st, sort_step, {"ref": a[0], "f": a[1], "sorted": [], "i": 0, "j": -1, "ret": unit()})

    @reg(r"^<Vec<" + REC + r"> as IntoIterator>::into_iter$")
    def _(eng, st, callee, a, ty):
        return one(Opaque("ListIter", {"items": list(a[0].f["items"])}))

    @reg(r"^<std::vec::IntoIter<" + REC + r"> as Iterator>::map::<")
    def _(eng, st, callee, a, ty):
        return one(Opaque("MapIter", {"items": list(a[0].data["items"]), "f": a[1]}))

    @reg(r"^<(std::iter::)?Map<std::vec::IntoIter<" + REC + r">, \{closure@.*\}> as Iterator>::collect::<Vec<")
    def _(eng, st, callee, a, ty):
        return M.hof_start(eng, st, collect_step, {"items": list(a[0].data["items"]), "f": a[0].data["f"], "out": []})

    # ---- heaps
    @reg(r"^BinaryHeap::<.*>::with_capacity$")
    def _(eng, st, callee, a, ty):
        return one(Agg("Heap", None, {"items": []}))

    @reg(r"^<BinaryHeap<Reverse<.*>> as From<Vec<Reverse<.*>>>>::from$")
    def _(eng, st, callee, a, ty):
        return one(Agg("Heap", None, {"items": list(a[0].f["items"])}))

    @reg(r"^BinaryHeap::<.*>::len$")
    def _(eng, st, callee, a, ty):
        return one(BV(len(eng.deref(a[0]).f["items"]), 64))

    @reg(r"^BinaryHeap::<.*>::push$")
    def _(eng, st, callee, a, ty):
        eng.deref(a[0]).f["items"].append(a[1])
        return one(unit())

    @reg(r"^BinaryHeap::<.*>::pop$")
    def _(eng, st, callee, a, ty):
        return heap_pop(eng, st, a[0])

    # ---- queue.extend(repeat(inf).zip(roots.iter().map(NodeId::tree)))
    @reg(r"^std::iter::repeat::<")
    def _(eng, st, callee, a, ty):
        return one(Opaque("Repeat", {"v": a[0]}))

    @reg(r"^ItemIds::<'_>::iter$")
    def _(eng, st, callee, a, ty):
        return one(Opaque("RootsIter", {}))

    @reg(r"^ItemIds::<'_>::len$")
    def _(eng, st, callee, a, ty):
        return one(BV(len(st.env["roots"]), 64))

    @reg(r" as Iterator>::map::<NodeId, fn\(u32\) -> NodeId \{NodeId::tree\}>$")
    def _(eng, st, callee, a, ty):
        if not (isinstance(a[1], FnItem) and a[1].name.endswith("NodeId::tree")):
            raise E.Unknown("roots are mapped through " + repr(a[1]))
        return one(Opaque("RootsAsTree", {}))

    @reg(r"^<std::iter::Repeat<OrderedFloat<f32>> as Iterator>::zip::<")
    def _(eng, st, callee, a, ty):
        return one(Opaque("Zip", {"rep": a[0].data["v"], "other": a[1].tag}))

    @reg(r"^<BinaryHeap<.*> as Extend<.*>>::extend::<std::iter::Zip<")
    def _(eng, st, callee, a, ty):
        heap = eng.deref(a[0])
        z = a[1]
        if z.data["other"] != "RootsAsTree":
            raise E.Unknown("unexpected iterator zipped into the queue")
        for r in st.env["roots"]:
            heap.f["items"].append(Agg("tuple", None, {0: z.data["rep"], 1: W.tree_id(r)}))
        return one(unit())

    # ---- geometry
    @reg(r"^<D as Distance>::margin_no_header$")
    def _(eng, st, callee, a, ty):
        m = None
        if st.env.get("margin_by_split"):
            # two runs over the same forest and query must see the same margins: a function of the split
            for x in a[:2]:
                v = eng.deref(x) if isinstance(x, Ref) else x
                while isinstance(v, Ref):
                    v = eng.deref(v)
                if isinstance(v, Agg) and v.kind == "Cow":
                    v = v.f[0]
                if isinstance(v, Opaque) and isinstance(v.data, dict) and v.data.get("tid") is not None:
                    m = MARGIN(z3.IntVal(int(v.data["tid"])))
            if m is None:
                raise E.Unknown("margin of a normal without a node id in the two-run obligation")
        else:
            m = eng.fresh("margin", F32)
        st.env.setdefault("margins", []).append(m)
        return one(m)

    @reg(r"^<D as Distance>::built_distance$")
    def _(eng, st, callee, a, ty):
        leaf = eng.deref(a[1])
        vec = leaf.f[1]
        return one(DIST(vec.data["id"]))

    @reg(r"^<D as Distance>::normalized_distance$")
    def _(eng, st, callee, a, ty):
        return one(NORM(a[0]))

    @reg(r"^core::f32::<impl f32>::min$")
    def _(eng, st, callee, a, ty):
        return one(z3.fpMin(a[0], a[1]))

    @reg(r"^Option::<&RoaringBitmap>::map_or::<bool, \{closure@")
    def _(eng, st, callee, a, ty):
        return M.m_map_or(eng, st, callee, a, ty)

    return ms


def forest(shape_names, two_trees):
    """Pre-state: tree A from the shape; optionally tree B = one bucket over the same items."""
    shapes = [s for s in e2_tree.SHAPES_THOROUGH if s.name in shape_names]
    for sh in shapes:
        pre = e2_tree.Pre(sh)
        store = dict(pre.store)
        roots = [z3.simplify(pre.root.f[1]).as_long()]
        if two_trees:
            store[10] = W.bucket(pre.items)
            roots.append(10)
        yield sh, pre, store, roots


def run_search(ctx, shape_names, two_trees, max_items, unlimited, deadline):
    results = {"paths": 0, "violations": [], "unknown": [], "shapes": []}
    fn = find_fn(ctx.fns, r"reader::.*::nns_by_leaf$")
    queries, solver_s, encoded = 0, 0.0, set()
    for sh, pre, store, roots in forest(shape_names, two_trees):
        eng = E.Engine(ctx.fns, ctx.structs, ctx.enums, models_for_search(roots) + list(M.REGISTRY), INLINE,
                       max_depth=3, max_steps=3000)
        count = z3.BitVec("count", 64)
        sk = z3.BitVec("search_k", 64)
        ov_some, ov = z3.Bool("oversampling_is_some"), z3.BitVec("oversampling", 64)
        cand_some, cand = z3.Bool("candidates_is_some"), z3.BitVec("candidates", U)
        dflt = z3.BitVec("DEFAULT_OVERSAMPLING", 64)
        items = pre.items
        pc = list(pre.cond) + [popcount(items, 8) <= BV(max_items, 8), ov != 0, z3.UGE(dflt, 1), z3.ULE(dflt, 3),
                                z3.ULE(count, BV(6, 64))]
        sm = M.satmul_uf(64)
        if unlimited:
            pc += [sk == BV((1 << 64) - 1, 64), z3.Not(ov_some), sm(sk, dflt) == sk]
        else:
            # any budget >= 1; the products are kept abstract but at least as large as their operands
            pc += [z3.UGE(sk, 1), z3.ULE(sk, BV(8, 64)), z3.Not(ov_some), dflt == 1, sm(sk, dflt) == sk]
        reader = Agg("Reader", None, {0: Opaque("Database"), 1: z3.BitVec("index", 16), 2: Opaque("ItemIds"),
                                      3: z3.BitVec("dimensions", 64), 4: items})
        cand_cell = Cell(cand)
        qb = Agg("QueryBuilder", None, {0: Opaque("reader"), 1: count, 2: Agg("Option", BV(1, 64), {0: sk}),
                                        3: Agg("Option", z3.If(ov_some, BV(1, 64), BV(0, 64)), {0: ov}),
                                        4: Agg("Option", z3.If(cand_some, BV(1, 64), BV(0, 64)), {0: Ref(cand_cell)})})
        leaf = Agg("Leaf", None, {0: Opaque("header"), 1: Agg("Cow", BV(1, 64), {0: Opaque("query")})})
        env = {"store": store, "frozen": {}, "stored_items": items, "leafs": BV(0, U), "roots": roots,
               "tmp": {"puts": [], "deleted": [], "remap": []}}
        args = [Ref(Cell(reader)), Ref(Cell(Opaque("RoTxn"))), Ref(Cell(leaf)), Ref(Cell(qb))]
        finals = eng.run(fn, args, env=env, pc=pc, deadline=deadline, max_paths=20000)
        allowed = z3.If(cand_some, items & cand, items)
        n_ok = 0
        for f in finals:
            if time.time() > deadline + 300:
                results["unknown"].append("post-processing of the enumerated paths: engine deadline reached")
                break
            results["paths"] += 1
            extra = [("count", count), ("search_k", sk), ("candidates_is_some", cand_some), ("set:candidates", cand)]

            def viol(clause, m, out=None):
                vals = e2_tree.model_values(m, pre, extra)
                vals["distances"] = {i: str(m.eval(DIST(BV(i, 32)), model_completion=True)) for i in range(U)
                                     if (m.eval(items, model_completion=True).as_long() >> i) & 1}
                if out is not None:
                    vals["returned"] = [m.eval(x.f[0], model_completion=True).as_long() for x in out]
                vals["margins"] = [str(m.eval(x, model_completion=True)) for x in f.env.get("margins", [])]
                vals["unlimited"] = unlimited
                results["violations"].append({"shape": sh.name + ("+bucket tree" if two_trees else ""), "clause": clause,
                                              "pre": pre, "values": vals})
            if f.status in ("unknown", "unwind"):
                results["unknown"].append(f"{sh.name}: {f.status}: {f.info}")
                continue
            if f.status == "panic":
                ok, m = eng.check(f.pc)
                if ok:
                    viol("panics: " + f.info, m)
                continue
            rv = f.value
            if not z3.is_true(z3.simplify(rv.disc == BV(0, 64))):
                ok, m = eng.check(f.pc)
                if ok:
                    viol("returns an error on a valid index", m)
                continue
            n_ok += 1
            out = rv.f[0].f["items"] if isinstance(rv.f[0], Agg) and "items" in rv.f[0].f else None
            if out is None:
                results["unknown"].append(f"{sh.name}: unexpected return value")
                continue
            ids = [x.f[0] for x in out]
            ds = [x.f[1] for x in out]
            checks = []
            checks.append(("more results than count", z3.UGT(BV(len(out), 64), count)))
            for i in range(len(out)):
                checks.append(("a result is not a stored item inside the filter", (allowed & bit(ids[i])) == BV(0, U)))
                checks.append(("a result does not carry its true (normalised) distance",
                               z3.Not(ds[i] == NORM(DIST(ids[i])))))
                for j in range(i + 1, len(out)):
                    checks.append(("the same item is returned twice", ids[i] == ids[j]))
            for i in range(len(out) - 1):
                a_f, b_f = DIST(ids[i]), DIST(ids[i + 1])
                checks.append(("results are not ordered nearest first",
                               z3.Or(of_gt(a_f, b_f), z3.And(of_eq(a_f, b_f), z3.UGT(ids[i], ids[i + 1])))))
            if unlimited:
                n_allowed = popcount(allowed, 64)
                want = z3.If(z3.ULT(count, n_allowed), count, n_allowed)
                checks.append(("unlimited budget: wrong number of results (not min(count, #items in the filter))",
                               BV(len(out), 64) != want))
                # exactness: no allowed item that was not returned is strictly closer than the last
                # result (one existentially quantified witness id instead of a 16-way disjunction)
                if out:
                    last_f, last_i = DIST(ids[-1]), ids[-1]
                    returned = BV(0, U)
                    for x in ids:
                        returned = returned | bit(x)
                    w = z3.BitVec("witness_item", 32)
                    missing = z3.And(z3.ULT(w, BV(U, 32)), (allowed & bit(w)) != BV(0, U), (returned & bit(w)) == BV(0, U))
                    closer = z3.Or(of_gt(last_f, DIST(w)), z3.And(of_eq(last_f, DIST(w)), z3.UGT(last_i, w)))
                    checks.append(("unlimited budget: a stored item closer than a returned one is missing",
                                   z3.And(missing, closer)))
            bad = z3.Or([c for _, c in checks]) if checks else z3.BoolVal(False)
            try:
                ok, m = eng.check(f.pc, bad)
            except E.Unknown as e:
                results["unknown"].append(f"{sh.name}: {e}")
                continue
            if ok:
                clause = next((w for w, c in checks if z3.is_true(m.eval(c, model_completion=True))), "result malformed")
                viol(clause, m, out)
        results["shapes"].append({"shape": sh.name + ("+bucket tree" if two_trees else ""), "paths": len(finals), "ok_paths": n_ok})
        queries += eng.queries
        solver_s += eng.solver_s
        encoded |= set(E.short(n) for n in eng.encoded)
    results["queries"], results["solver_s"], results["encoded"] = queries, round(solver_s, 2), sorted(encoded)
    return results


def run_monotone(ctx, shape_names, two_trees, max_items, budgets, deadline):
    """C03 budget monotonicity as a two-run (hyper-)property: for the same forest, query, count and
    filter, and budgets k1 < k2, the result of the larger budget is at least as long and at no rank
    farther than the result of the smaller one.  Both runs are executed from the MIR; distances are
    one uninterpreted function of the id and margins one uninterpreted function of the split node, so
    the two runs see the same geometry; every pair of paths is decided by z3."""
    results = {"paths": 0, "violations": [], "unknown": [], "shapes": []}
    fn = find_fn(ctx.fns, r"reader::.*::nns_by_leaf$")
    queries, solver_s, encoded = 0, 0.0, set()
    for sh, pre, store, roots in forest(shape_names, two_trees):
        eng = E.Engine(ctx.fns, ctx.structs, ctx.enums, models_for_search(roots) + list(M.REGISTRY), INLINE,
                       max_depth=3, max_steps=3000)
        count = z3.BitVec("count", 64)
        cand_some, cand = z3.Bool("candidates_is_some"), z3.BitVec("candidates", U)
        items = pre.items
        base = list(pre.cond) + [popcount(items, 8) <= BV(max_items, 8), z3.ULE(count, BV(4, 64))]
        sm = M.satmul_uf(64)
        runs = {}
        label = sh.name + ("+bucket tree" if two_trees else "")
        broken = False
        for k in budgets:
            sk = BV(k, 64)
            dflt = z3.BitVec("DEFAULT_OVERSAMPLING", 64)     # the symbol the engine gives the associated const
            pc = base + [dflt == 1, sm(sk, dflt) == sk]
            reader = Agg("Reader", None, {0: Opaque("Database"), 1: z3.BitVec("index", 16), 2: Opaque("ItemIds"),
                                          3: z3.BitVec("dimensions", 64), 4: items})
            qb = Agg("QueryBuilder", None, {0: Opaque("reader"), 1: count, 2: Agg("Option", BV(1, 64), {0: sk}),
                                            3: Agg("Option", BV(0, 64), {}),
                                            4: Agg("Option", z3.If(cand_some, BV(1, 64), BV(0, 64)), {0: Ref(Cell(cand))})})
            leaf = Agg("Leaf", None, {0: Opaque("header"), 1: Agg("Cow", BV(1, 64), {0: Opaque("query")})})
            env = {"store": dict(store), "frozen": {}, "stored_items": items, "leafs": BV(0, U), "roots": roots,
                   "tmp": {"puts": [], "deleted": [], "remap": []}, "margin_by_split": True}
            args = [Ref(Cell(reader)), Ref(Cell(Opaque("RoTxn"))), Ref(Cell(leaf)), Ref(Cell(qb))]
            finals = eng.run(fn, args, env=env, pc=pc, deadline=deadline, max_paths=20000)
            outs = []
            for f in finals:
                if time.time() > deadline + 300:
                    results["unknown"].append("post-processing of the enumerated paths: engine deadline reached")
                    break
                results["paths"] += 1
                if f.status != "return" or not z3.is_true(z3.simplify(f.value.disc == BV(0, 64))):
                    # errors / panics / unknowns are bounded_search_wellformed's business; here they make
                    # the pair undecidable
                    if f.status in ("unknown", "unwind"):
                        results["unknown"].append(f"{label}: budget {k}: {f.status}: {f.info}")
                        broken = True
                    continue
                o = f.value.f[0].f["items"]
                outs.append((list(f.pc), [x.f[0] for x in o]))
            runs[k] = outs
        if broken:
            continue
        n_pairs = 0
        out_of_time = False
        for k1 in budgets:
            for k2 in budgets:
                if k1 >= k2 or out_of_time:
                    continue
                for pc1, ids1 in runs[k1]:
                    if out_of_time:
                        break
                    for pc2, ids2 in runs[k2]:
                        if time.time() > deadline:
                            results["unknown"].append(f"{label}: engine deadline reached")
                            out_of_time = True
                            break
                        if len(ids2) >= len(ids1):
                            worse = [of_gt(DIST(ids2[i]), DIST(ids1[i])) for i in range(len(ids1))]
                            if not worse:
                                continue
                            bad = z3.Or(worse)
                        else:
                            bad = z3.BoolVal(True)
                        n_pairs += 1
                        try:
                            ok, m = eng.check(pc1 + pc2, bad)
                        except E.Unknown as e:
                            results["unknown"].append(f"{label}: {e}")
                            continue
                        if ok:
                            vals = e2_tree.model_values(m, pre, [("count", count), ("candidates_is_some", cand_some),
                                                                 ("set:candidates", cand)])
                            vals["distances"] = {i: str(m.eval(DIST(BV(i, 32)), model_completion=True)) for i in range(U)
                                                 if (m.eval(items, model_completion=True).as_long() >> i) & 1}
                            vals["budgets"] = [k1, k2]
                            vals["returned_small"] = [m.eval(x, model_completion=True).as_long() for x in ids1]
                            vals["returned_large"] = [m.eval(x, model_completion=True).as_long() for x in ids2]
                            vals["margins"] = [str(m.eval(MARGIN(z3.IntVal(t)), model_completion=True)) for t in sorted(store)]
                            vals["unlimited"] = False
                            results["violations"].append({
                                "shape": label, "pre": pre, "values": vals,
                                "clause": (f"enlarging the budget from {k1} to {k2} shortens the result" if len(ids2) < len(ids1)
                                           else f"enlarging the budget from {k1} to {k2} makes a rank worse")})
        results["shapes"].append({"shape": label, "paths": sum(len(v) for v in runs.values()), "ok_paths": n_pairs,
                                  "pairs_decided": n_pairs})
        queries += eng.queries
        solver_s += eng.solver_s
        encoded |= set(E.short(n) for n in eng.encoded)
    results["queries"], results["solver_s"], results["encoded"] = queries, round(solver_s, 2), sorted(encoded)
    return results


def monotone_obligation(o, tier, seed):
    import e2
    import native
    from driver import Outcome
    try:
        ctx = e2.context(True)
    except RuntimeError as e:
        return [Outcome(o["id"], "mirsym", "inconclusive", str(e))]
    if tier == "thorough":
        cfgs = [(["bucket", "split(bucket,bucket)", "split(item,bucket)", "split(bucket,item)"], False, 3, [1, 2, 3]),
                (["split(bucket,bucket)", "split(bucket,item)"], True, 2, [1, 2, 3, 4])]
    else:
        cfgs = [(["split(bucket,bucket)", "split(item,bucket)"], False, 2, [1, 2, 3]), (["split(bucket,item)"], True, 2, [1, 2, 3])]
    total = None
    for names, two, mx, budgets in cfgs:
        r = run_monotone(ctx, names, two, mx, budgets, time.time() + (2400 if tier == "thorough" else 600))
        if total is None:
            total = r
        else:
            for k in ("paths", "queries"):
                total[k] += r[k]
            total["solver_s"] = round(total["solver_s"] + r["solver_s"], 2)
            for k in ("violations", "unknown", "shapes"):
                total[k] += r[k]
            total["encoded"] = sorted(set(total["encoded"]) | set(r["encoded"]))
    return e2_tree.outcomes_from(o, total, "monotone", native, e2, Outcome)


def fp_to_float(txt):
    t = txt.strip()
    if t in ("+oo", "oo"):
        return float("inf")
    if t == "-oo":
        return float("-inf")
    if t == "NaN":
        return float("nan")
    t = t.replace("+zero", "0.0").replace("-zero", "-0.0")
    m = re.match(r"^(-?[0-9.]+)(?:\*\(2\*\*(-?\d+)\))?$", t)
    if not m:
        return None
    v = float(m.group(1))
    if m.group(2):
        v *= 2.0 ** int(m.group(2))
    return v


def monotone_scenario(v):
    """the forest and query of search_scenario, then the budget sweep of the native runner"""
    base = search_scenario(v, False)
    if base is None:
        return None
    lines = [l for l in base.splitlines() if not l.startswith("query ")]
    vals = v["values"]
    cand = "none"
    if vals.get("candidates_is_some"):
        cand = ",".join(map(str, vals.get("set:candidates", []))) or "-"
    lines.append(f"monotone_check count={vals.get('count', 1)} candidates={cand} vec=1.0,0.0")
    return "\n".join(lines) + "\n"


def search_scenario(v, unlimited):
    """Through-API replay: raw pre-state (no build), one query.  Query = (1, 0); item i sits at
    (1 + rank_i, 0) where rank_i is the rank of its symbolic distance in the counterexample; the
    root split's normal is (+-1, 0) according to the sign of the counterexample's margin."""
    pre, vals = v["pre"], v["values"]
    dists = {int(i): fp_to_float(t) for i, t in vals.get("distances", {}).items()}
    if any(d is None for d in dists.values()):
        return None
    nan_items = {i for i, d in dists.items() if d != d}
    order = sorted(set(d for d in dists.values() if d == d))
    rank = {i: (order.index(d) if d == d else 0) for i, d in dists.items()}
    margins = [fp_to_float(t) for t in vals.get("margins", [])]
    margins = [None if (m is not None and m != m) else m for m in margins]
    lines = ["dim 2"]
    k = [0]

    def emit(nid):
        if W.mode_of(nid).as_long() == W.MODE_ITEM:
            return
        t = z3.simplify(nid.f[1]).as_long()
        node = pre.store[t]
        if W.node_kind(node) == W.BUCKET:
            lines.append(f"raw_bucket {t} " + ",".join(map(str, vals[f'{pre.prefix}bucket{t}'])))
            return
        sp = node.f[0]
        m = margins[k[0]] if k[0] < len(margins) and margins[k[0]] is not None else 1.0
        k[0] += 1
        normal = "1.0,0.0" if m > 0 else ("-1.0,0.0" if m < 0 else "0.0,1.0")

        def ref(c):
            if W.mode_of(c).as_long() == W.MODE_ITEM:
                return "item:" + str(vals[str(c.f[1])])
            return "tree:" + str(z3.simplify(c.f[1]).as_long())
        lines.append(f"raw_split {t} {ref(sp.f[0])} {ref(sp.f[1])} {normal}")
        emit(sp.f[0])
        emit(sp.f[1])
    emit(pre.root)
    for i in sorted(rank):
        # an item whose symbolic distance is NaN gets a NaN coordinate (Euclidean distance NaN)
        lines.append(f"raw_item {i} NaN,0.0" if i in nan_items else f"raw_item {i} {1.0 + rank[i]:.1f},0.0")
    root_t = z3.simplify(pre.root.f[1]).as_long()
    roots = [root_t]
    if "+bucket tree" in v["shape"]:
        lines.append("raw_bucket 10 " + ",".join(str(i) for i in sorted(rank)))
        roots.append(10)
    lines.append("raw_meta roots=" + ",".join(map(str, roots)) + " items=" + ",".join(str(i) for i in sorted(rank)))
    cand = "none"
    if vals.get("candidates_is_some"):
        cand = ",".join(map(str, vals.get("set:candidates", []))) or "-"
    sk = "18446744073709551615" if unlimited else str(vals.get("search_k", 1))
    lines.append(f"query count={vals.get('count', 1)} search_k={sk} candidates={cand} vec=1.0,0.0 "
                 f"check={'exact' if unlimited else 'wellformed'}")
    return "\n".join(lines) + "\n"


def obligation(o, tier, seed):
    import e2
    import native
    from driver import Outcome
    try:
        ctx = e2.context(True)
    except RuntimeError as e:
        return [Outcome(o["id"], "mirsym", "inconclusive", str(e))]
    unlimited = o.get("unlimited", False)
    if tier == "thorough":
        names = ["bucket", "split(bucket,bucket)", "split(item,bucket)", "split(bucket,item)", "split(item,item)",
                 "split(split(bucket,item),bucket)"]
        cfgs = [(names, False, 4), (names[:3], True, 3)]
    else:
        cfgs = [(["bucket", "split(bucket,bucket)", "split(item,bucket)"], False, 3), (["split(bucket,item)"], True, 3)]
    total = None
    for names, two, mx in cfgs:
        r = run_search(ctx, names, two, mx, unlimited, time.time() + (2400 if tier == "thorough" else 700))
        if total is None:
            total = r
        else:
            for k in ("paths", "queries"):
                total[k] += r[k]
            total["solver_s"] = round(total["solver_s"] + r["solver_s"], 2)
            for k in ("violations", "unknown", "shapes"):
                total[k] += r[k]
            total["encoded"] = sorted(set(total["encoded"]) | set(r["encoded"]))
    return e2_tree.outcomes_from(o, total, "search", native, e2, Outcome)
