"""E2 obligation on the query entry points (C03, C19, C05): `QueryBuilder::by_item`,
`QueryBuilder::by_vector`, `Reader::is_empty` / `Writer::is_empty` executed from MIR over the
key-value world of e2_metric, with `nns_by_leaf` replaced by a recorder.  by_item must hand the
*stored* leaf of exactly (index, Item, id) to the search with the builder unchanged and answer
Ok(None) without searching for an id that is not stored; by_vector must reject every length other
than the dimension with both numbers and otherwise search with Leaf{new_header(v), v}.  Together
with the stored-leaf contract of add_item (header = new_header(v)) and the header independence of
DotProduct's distance/margin this gives by_item == by_vector."""
import re
import time

import z3

from mirsym import engine as E
from mirsym import models as M
from mirsym.engine import BV, Agg, Cell, Opaque, Ref
from mirsym.mir import find_fn
from mirsym.models import mk_ok, mk_option, one

import e2_metric
import e2_tree
from e2_metric import IDX, ITEM, TREE, concrete_key, database, kv_models

INLINE = e2_metric.INLINE + [
    (re.compile(r"^Reader::<'_, D>::dimensions$"), r"reader::.*::dimensions$"),
    (re.compile(r"^Reader::<'_, D>::iter$"), r"reader::.*::iter$"),
    (re.compile(r"^Writer::<D>::iter$"), r"writer::.*::iter$"),
]


def models(codec):
    ms = []

    def reg(pat):
        def deco(f):
            ms.append((re.compile(pat), f))
            return f
        return deco

    @reg(r"^heed::Database::<KeyCodec, NodeCodec<D>>::get::<")
    def _(eng, st, callee, a, ty):
        k = concrete_key(eng, a[2])
        st.env["log"].append(("get", k))
        v = st.env["kv"].get(k)
        return one(mk_ok(mk_option(v) if v is not None else mk_option()))

    @reg(r"^Reader::<'_, D>::nns_by_leaf$")
    def _(eng, st, callee, a, ty):
        leaf = eng.deref(a[2])
        qb = eng.deref(a[3])
        res = Opaque("nns result", {"n": len(st.env["nns"])})
        st.env["nns"].append({"leaf": leaf, "qb": qb, "reader": eng.deref(a[0]), "res": res})
        return one(mk_ok(res))

    @reg(r"^(?:std::result::)?Result::<.*>::map::<Option<.*>, fn\(.*\) -> Option<.*> \{Option::<.*>::Some\}>$")
    def _(eng, st, callee, a, ty):
        r = a[0]
        if z3.is_true(z3.simplify(r.disc == BV(0, 64))):
            return one(mk_ok(mk_option(r.f[0])))
        return one(r)

    @reg(r"^UnalignedVector::<<D as Distance>::VectorCodec>::from_slice$")
    def _(eng, st, callee, a, ty):
        v = eng.deref(a[0])
        n = v.f["len"]
        stored = n if codec == "f32" else e2_metric.words(n)
        return one(Agg("Cow", BV(0, 64), {0: Opaque("vector", {"codec": codec, "stored": stored, "src": v})}))

    @reg(r"^<D as Distance>::new_header$")
    def _(eng, st, callee, a, ty):
        v = eng.deref(a[0])
        while isinstance(v, Ref):
            v = eng.deref(v)
        if isinstance(v, Agg) and v.kind == "Cow":
            v = v.f[0]
        return one(Opaque("header", {"metric": "D", "of": v}))

    @reg(r"^<Cow<'_, UnalignedVector<.*>> as Deref>::deref$")
    def _(eng, st, callee, a, ty):
        cow = eng.deref(a[0])
        return one(Ref(Cell(cow.f[0])))

    @reg(r"^Option::<std::result::Result<\(u32, Vec<f32>\), error::Error>>::is_none$")
    def _(eng, st, callee, a, ty):
        o = eng.deref(a[0])
        return one(z3.simplify(o.disc == BV(0, 64)))

    return ms


def mk_reader(dim):
    return Agg("Reader", None, {0: Opaque("Database"), 1: BV(IDX, 16), 2: Opaque("ItemIds"), 3: dim, 4: BV(0, 16)})


def run_query(ctx, codec, deadline):
    res = {"paths": 0, "violations": [], "unknown": [], "shapes": []}
    eng = E.Engine(ctx.fns, ctx.structs, ctx.enums, models(codec) + kv_models(codec, codec, False) + list(M.REGISTRY),
                   INLINE, max_depth=3, max_steps=3000)
    dim = z3.BitVec("dimensions", 64)
    base_pc = [z3.UGE(dim, 1), z3.ULE(dim, 300)]
    count = z3.BitVec("count", 64)
    sk = z3.BitVec("search_k", 64)
    label = f"query entry points over {codec} leaves"

    def viol(clause, m, **vals):
        d = {"dimensions": m.eval(dim, model_completion=True).as_long(), "codec": codec}
        d.update(vals)
        res["violations"].append({"shape": label, "clause": clause, "pre": None, "values": d})

    def fresh_world():
        kv = database(dim, codec, True)
        # decoys: same id under another kind and in the neighbouring indexes
        kv[(IDX, TREE, 1)] = e2_metric.tree_node("decoy")
        kv[(IDX, TREE, 2)] = e2_metric.tree_node("decoy2")
        kv[(IDX - 1, ITEM, 2)] = e2_metric.leaf_node(codec, dim, "D")
        kv[(IDX + 1, ITEM, 2)] = e2_metric.leaf_node(codec, dim, "D")
        return kv

    def builder(reader):
        return Agg("QueryBuilder", None, {0: Ref(Cell(reader)), 1: count, 2: Agg("Option", BV(1, 64), {0: sk}),
                                          3: Agg("Option", BV(0, 64), {}), 4: Agg("Option", BV(0, 64), {})})

    def ends(finals, what):
        good = []
        for f in finals:
            res["paths"] += 1
            if f.status in ("unknown", "unwind"):
                res["unknown"].append(f"{label}: {what}: {f.status}: {f.info}")
            elif f.status == "panic":
                ok, m = eng.check(f.pc)
                if ok:
                    viol(f"{what} panics: {f.info}", m)
            else:
                good.append(f)
        return good

    # ---- by_item
    by_item = find_fn(ctx.fns, r"reader::.*::by_item$")
    for item, stored in ((1, True), (2, False), (0xFFFFFFFF, True), (0, False)):
        kv = fresh_world()
        reader = mk_reader(dim)
        qb = builder(reader)
        finals = eng.run(by_item, [Ref(Cell(qb)), Ref(Cell(Opaque("RoTxn"))), BV(item, 32)],
                         env={"kv": kv, "log": [], "nns": []}, pc=list(base_pc), deadline=deadline)
        for f in ends(finals, f"by_item({item})"):
            rv, calls = f.value, f.env["nns"]
            ok, m = eng.check(f.pc)
            if not ok:
                continue
            if not z3.is_true(z3.simplify(rv.disc == BV(0, 64))):
                viol(f"by_item({item}) returns an error" + (" for an id that is not stored" if not stored else ""), m, item=item)
                continue
            opt = rv.f[0]
            some = z3.is_true(z3.simplify(opt.disc == BV(1, 64)))
            if not stored:
                if some or calls:
                    viol(f"by_item({item}) searches / answers Some for an id that is not stored", m, item=item)
                continue
            if not some or len(calls) != 1:
                viol(f"by_item({item}) does not search for a stored item", m, item=item)
                continue
            c = calls[0]
            want = f.env["kv"][(IDX, ITEM, item)].f[0]
            if c["leaf"] is not want or opt.f[0] is not c["res"]:
                viol(f"by_item({item}) does not query with the stored leaf of (index, Item, {item})", m, item=item)
                continue
            q2 = c["qb"]
            same = (q2.f[1] is count or z3.is_true(z3.simplify(q2.f[1] == count))) and \
                z3.is_true(z3.simplify(q2.f[2].disc == BV(1, 64))) and z3.is_true(z3.simplify(q2.f[2].f[0] == sk)) and \
                z3.is_true(z3.simplify(q2.f[3].disc == BV(0, 64))) and z3.is_true(z3.simplify(q2.f[4].disc == BV(0, 64)))
            if not same:
                viol(f"by_item({item}) searches with other options than the builder's", m, item=item)
            if set(f.env["kv"]) != set(kv) or any(e[0] != "get" for e in f.env["log"]):
                viol(f"by_item({item}) writes to the database", m, item=item)

    # ---- by_vector
    by_vector = find_fn(ctx.fns, r"reader::.*::by_vector$")
    n = z3.BitVec("vector_len", 64)
    kv = fresh_world()
    reader = mk_reader(dim)
    qb = builder(reader)
    slice_ = Agg("VecF32", None, {"len": n})
    finals = eng.run(by_vector, [Ref(Cell(qb)), Ref(Cell(Opaque("RoTxn"))), Ref(Cell(slice_))],
                     env={"kv": kv, "log": [], "nns": []}, pc=list(base_pc) + [z3.ULE(n, 400)], deadline=deadline)
    for f in ends(finals, "by_vector"):
        rv, calls = f.value, f.env["nns"]
        is_ok = z3.is_true(z3.simplify(rv.disc == BV(0, 64)))
        # wrong length must be rejected, right length accepted
        if is_ok:
            ok, m = eng.check(f.pc, n != dim)
            if ok:
                viol("by_vector accepts a vector whose length differs from the dimension", m,
                     vector_len=m.eval(n, model_completion=True).as_long())
                continue
            if len(calls) != 1:
                res["unknown"].append(f"{label}: by_vector: {len(calls)} searches on the Ok path")
                continue
            lf = calls[0]["leaf"]
            vec = lf.f[1].f[0] if isinstance(lf.f[1], Agg) else lf.f[1]
            hdr = lf.f[0]
            okv = isinstance(vec, Opaque) and vec.data.get("src") is not None and "len" in vec.data["src"].f \
                and z3.is_true(z3.simplify(vec.data["src"].f["len"] == n))
            okh = isinstance(hdr, Opaque) and hdr.data.get("of") is vec
            if not (okv and okh):
                ok, m = eng.check(f.pc)
                if ok:
                    viol("by_vector does not search with Leaf { new_header(v), v } of the given vector", m)
        else:
            ok, m = eng.check(f.pc, n == dim)
            if ok:
                viol("by_vector rejects a vector of the right length", m,
                     vector_len=m.eval(n, model_completion=True).as_long())
                continue
            if calls:
                ok, m = eng.check(f.pc)
                if ok:
                    viol("by_vector searches although it reports an error", m)
                continue
            e = rv.f[0]
            vals = list(e.f.values()) if isinstance(e, Agg) else []
            good = len(vals) == 2 and eng.check(f.pc, z3.Or(vals[0] != dim, vals[1] != n))[0] is False
            if not good:
                ok, m = eng.check(f.pc)
                if ok:
                    viol("the dimension error does not carry (expected = dimension, received = length)", m,
                         vector_len=m.eval(n, model_completion=True).as_long())

    # ---- is_empty (reader and writer), with and without items
    for side in ("reader", "writer"):
        fn = find_fn(ctx.fns, side + r"::.*::is_empty$")
        for with_items in (True, False):
            kv = database(dim, codec, with_items)
            me = mk_reader(dim) if side == "reader" else \
                Agg("Writer", None, {0: Opaque("Database"), 1: BV(IDX, 16), 2: dim, 3: Agg("Option", BV(0, 64), {})})
            finals = eng.run(fn, [Ref(Cell(me)), Ref(Cell(Opaque("RoTxn")))], env={"kv": kv, "log": [], "nns": []},
                             pc=list(base_pc), deadline=deadline)
            for f in ends(finals, f"{side}.is_empty"):
                rv = f.value
                ok, m = eng.check(f.pc)
                if not ok:
                    continue
                if not z3.is_true(z3.simplify(rv.disc == BV(0, 64))):
                    viol(f"{side}.is_empty returns an error", m, side=side)
                    continue
                b = z3.simplify(rv.f[0])
                if not (z3.is_true(b) or z3.is_false(b)) or z3.is_true(b) == with_items:
                    viol(f"{side}.is_empty answers {b} for an index {'with' if with_items else 'without'} items "
                         f"(the neighbouring indexes have items)", m, side=side, with_items=with_items)
    res["shapes"].append({"shape": label, "paths": res["paths"], "ok_paths": res["paths"]})
    res["queries"], res["solver_s"] = eng.queries, round(eng.solver_s, 2)
    res["encoded"] = sorted(E.short(x) for x in eng.encoded)
    return res


def obligation(o, tier, seed):
    import e2
    import native
    from driver import Outcome
    try:
        ctx = e2.context(True)
    except RuntimeError as e:
        return [Outcome(o["id"], "mirsym", "inconclusive", str(e))]
    total = None
    for codec in ("f32", "bq"):
        r = run_query(ctx, codec, time.time() + 300)
        if total is None:
            total = r
        else:
            for k in ("paths", "queries"):
                total[k] += r[k]
            total["solver_s"] = round(total["solver_s"] + r["solver_s"], 2)
            for k in ("violations", "unknown", "shapes"):
                total[k] += r[k]
            total["encoded"] = sorted(set(total["encoded"]) | set(r["encoded"]))
    return e2_tree.outcomes_from(o, total, "query_entry", native, e2, Outcome)


def query_scenario(v):
    vals = v["values"]
    metric = "bq_euclidean" if vals.get("codec") == "bq" else "euclidean"
    dim = max(1, min(int(vals.get("dimensions", 3)), 200))
    ln = vals.get("vector_len")
    extra = f" vector_len={ln}" if ln is not None else ""
    return f"query_entry metric={metric} dim={dim}{extra}\n"
