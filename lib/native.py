"""Native replay: run a scenario against the real code + real LMDB in a scratch copy."""
import os
import re

from common import HARNESS, Scratch, log, run


def run_scenario(scenario_text, profile="dev", timeout=1500):
    """Returns dict(reproduced: True|False|None, lines: [...], tail: str)."""
    s = Scratch("native")
    try:
        s.standalone_workspace()
        dst = s.path("src", "verif_replay.rs")
        with open(os.path.join(HARNESS, "native", "verif_replay.rs")) as f:
            open(dst, "w").write(f.read())
        s.inject_mod("src/writer.rs", "verif_replay", dst, cfg="test")
        sc = os.path.join(s.dir, "scenario.txt")
        open(sc, "w").write(scenario_text)
        cmd = ["cargo", "test", "--offline", "--lib", "--target-dir", os.path.join(s.dir, "target")]
        if profile == "release":
            cmd.append("--release")
        cmd += ["verif_replay", "--", "--nocapture", "--test-threads", "1"]
        rc, out, dt = run(cmd, cwd=s.repo, env={"VERIF_SCENARIO": sc}, timeout=timeout)
        lines = [l.strip() for l in out.splitlines() if l.startswith(("RESULT", "STEP"))]
        viol = [l for l in lines if l.startswith("RESULT violation")]
        broke = [l for l in lines if l.startswith("RESULT harness-panic")]
        holds = any(l.startswith("RESULT holds") for l in lines)
        panicked = "panicked at" in out and not holds and not viol and not broke
        crash = re.search(r"\(signal: \d+, (SIG(?:SEGV|BUS|ILL|ABRT))", out)
        if crash and "SCENARIO" in out:
            # the test process died inside a scenario: memory unsafety / abort in the code under test
            lines.append(f"RESULT violation: the process crashed with {crash.group(1)} while running the scenario")
            viol.append(lines[-1])
        if broke and not viol:
            rep = None
        elif viol or panicked:
            rep = True
        elif holds:
            rep = False
        else:
            rep = None
        if panicked:
            m = re.search(r"panicked at ([^\n]*)\n([^\n]*)", out)
            lines.append("RESULT violation: panic " + (m.group(0).replace("\n", " ")[:300] if m else ""))
        return {"reproduced": rep, "profile": profile, "lines": lines, "tail": out[-1200:] if rep is None else "",
                "seconds": round(dt, 1)}
    finally:
        s.close()


def run_loom(used, threads, calls, timeout=1500):
    """C13: run the real ConcurrentNodeIds under loom (all interleavings) for the counterexample's
    configuration.  Returns dict(reproduced: True|False|None, lines, tail)."""
    s = Scratch("loom")
    try:
        s.standalone_workspace()
        ct = s.path("Cargo.toml")
        txt = open(ct).read()
        if "\nloom" not in txt:
            txt = txt.replace("[dependencies]", "[dependencies]\nloom = \"0.7\"", 1)
        open(ct, "w").write(txt)
        pp = s.path("src", "parallel.rs")
        src = open(pp).read()
        src2 = re.sub(r"use std::sync::atomic::", "use loom::sync::atomic::", src)
        if src2 == src:
            return {"reproduced": None, "lines": [], "tail": "no std::sync::atomic import found in src/parallel.rs", "seconds": 0}
        open(pp, "w").write(src2)
        dst = s.path("src", "verif_loom.rs")
        with open(os.path.join(HARNESS, "native", "verif_loom.rs")) as f:
            open(dst, "w").write(f.read())
        s.inject_mod("src/parallel.rs", "verif_loom", dst, cfg="test")
        spec = f"threads={threads};calls={calls};used=" + (",".join(map(str, used)) or "-")
        cmd = ["cargo", "test", "--offline", "--lib", "--release", "--target-dir", os.path.join(s.dir, "target"),
               "verif_loom", "--", "--nocapture", "--test-threads", "1"]
        rc, out, dt = run(cmd, cwd=s.repo, env={"VERIF_LOOM": spec, "LOOM_MAX_PREEMPTIONS": "3"}, timeout=timeout)
        lines = [m.group(0).strip() for m in re.finditer(r"RESULT (?:violation|holds)[^\n]*", out)]
        if any(l.startswith("RESULT violation") for l in lines):
            rep = True
        elif any(l.startswith("RESULT holds") for l in lines):
            rep = False
        else:
            rep = None
        return {"reproduced": rep, "spec": spec, "lines": lines, "tail": out[-1200:] if rep is None else "", "seconds": round(dt, 1)}
    finally:
        s.close()
