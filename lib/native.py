"""Native replay: run a scenario against the real code + real LMDB in a scratch copy."""
import os
import re

from common import HARNESS, Scratch, log, run


def run_scenario(scenario_text, profile="dev", timeout=1500):
    """Returns dict(reproduced: True|False|None, lines: [...], tail: str)."""
    s = Scratch("native")
    try:
        s.standalone_workspace()
        dst = s.path("src", "verif_replay.rs")
        with open(os.path.join(HARNESS, "native", "verif_replay.rs")) as f:
            open(dst, "w").write(f.read())
        s.inject_mod("src/writer.rs", "verif_replay", dst, cfg="test")
        sc = os.path.join(s.dir, "scenario.txt")
        open(sc, "w").write(scenario_text)
        cmd = ["cargo", "test", "--offline", "--lib", "--target-dir", os.path.join(s.dir, "target")]
        if profile == "release":
            cmd.append("--release")
        cmd += ["verif_replay", "--", "--nocapture", "--test-threads", "1"]
        rc, out, dt = run(cmd, cwd=s.repo, env={"VERIF_SCENARIO": sc}, timeout=timeout)
        lines = [l.strip() for l in out.splitlines() if l.startswith(("RESULT", "STEP"))]
        viol = [l for l in lines if l.startswith("RESULT violation")]
        broke = [l for l in lines if l.startswith("RESULT harness-panic")]
        holds = any(l.startswith("RESULT holds") for l in lines)
        panicked = "panicked at" in out and not holds and not viol and not broke
        crash = re.search(r"\(signal: \d+, (SIG(?:SEGV|BUS|ILL|ABRT))", out)
        if crash and "SCENARIO" in out:
            # the test process died inside a scenario: memory unsafety / abort in the code under test
            lines.append(f"RESULT violation: the process crashed with {crash.group(1)} while running the scenario")
            viol.append(lines[-1])
        if broke and not viol:
            rep = None
        elif viol or panicked:
            rep = True
        elif holds:
            rep = False
        else:
            rep = None
        if panicked:
            m = re.search(r"panicked at ([^\n]*)\n([^\n]*)", out)
            lines.append("RESULT violation: panic " + (m.group(0).replace("\n", " ")[:300] if m else ""))
        return {"reproduced": rep, "profile": profile, "lines": lines, "tail": out[-1200:] if rep is None else "",
                "seconds": round(dt, 1)}
    finally:
        s.close()
