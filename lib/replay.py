"""--replay <file>: re-decide the recorded obligation on the current tree and re-run its native playback."""
import json
import sys


def main(prop, path):
    import driver
    d = json.load(open(path))
    print(f"replaying obligation {d['obligation']} of {d['property']} ({d['engine']}): {d['statement']}")
    if d.get("concrete_playback_test"):
        print("--- recorded concrete playback test ---")
        print(d["concrete_playback_test"])
    if d.get("counterexample"):
        print("--- recorded counterexample ---")
        print(json.dumps(d["counterexample"], indent=1))
    return driver.main([d["property"], "--only", d["obligation"], "--tier", "thorough"])
