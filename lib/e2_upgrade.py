"""E2 W-obligations on src/upgrade.rs (C17), executed from MIR over a two-database key-value world.

cosine_from_0_4_to_0_5: the source database is a constant-shape v0.4 layout (key kinds Item = 0,
Tree = 1, Metadata = 2; the same numbering inside split nodes; pending updates as one bitmap under
(index, 2, 1)) with symbolic pending-update sets; the destination is pre-filled with junk.  Oracle:
the destination is exactly the current-layout image of the source, key for key.
from_0_5_to_0_6: one iteration of the 0..=u16::MAX scan for an arbitrary index (the range bounds
are read off the call that builds the range): a version record is written iff the index has
metadata, and nothing else is written."""
import re
import time

import z3

from mirsym import engine as E
from mirsym import models as M
from mirsym import world as W
from mirsym.engine import BV, Agg, Cell, FnItem, Opaque, Ref, PANIC, Unknown
from mirsym.models import U, BitIter, bit, fork_on, mk_err, mk_ok, mk_option, one, unit, call_fn_item

import e2_tree

INLINE = e2_tree.INLINE + [
    (re.compile(r"^<OldNodeMode as TryFrom<u8>>::try_from$"), r"cosine_from_0_4_to_0_5::<impl at [^>]*>::try_from$"),
    (re.compile(r"^Key::metadata$"), r"key::.*::metadata$", "-> Key"),
    (re.compile(r"^Key::version$"), r"key::.*::version$", "-> Key"),
    (re.compile(r"^NodeId::metadata$"), r"node_id::.*::metadata$"),
    (re.compile(r"^NodeId::version$"), r"node_id::.*::version$"),
    (re.compile(r"^(?:key::)?Prefix::(item|tree|updated|all)$"), r"key::<impl at [^>]*>::{name}$", "-> key::Prefix"),
]

OLD_ITEM, OLD_TREE, OLD_META = 0, 1, 2
NEW_OF_OLD = {0: 3, 1: 2, 2: 0}


def key_agg(idx, mode, ident):
    return Agg("Key", None, {0: BV(idx, 16), 1: W.node_id(mode, ident if not isinstance(ident, int) else BV(ident, 32)), 2: BV(0, 8)})


def key_parts(eng, keyref):
    key = eng.deref(keyref)
    return z3.simplify(key.f[0]), z3.simplify(key.f[1].f[0].disc), z3.simplify(key.f[1].f[1])


def models():
    ms = []

    def reg(pat):
        def deco(f):
            ms.append((re.compile(pat), f))
            return f
        return deco

    @reg(r"^heed::Database::<.*>::(remap_key_type|remap_types|remap_data_type)::<")
    def _(eng, st, callee, a, ty):
        return one(eng.deref(a[0]))

    @reg(r"^heed::Database::<.*>::clear$")
    def _(eng, st, callee, a, ty):
        db = eng.deref(a[0]) if isinstance(a[0], Ref) else a[0]
        if db.data["which"] != "write":
            st.env["problems"].append("clear() called on the source database")
        st.env["w_base"] = {}
        st.env["cleared"] = True
        return one(mk_ok(unit()))

    @reg(r"^heed::Database::<.*>::iter$")
    def _(eng, st, callee, a, ty):
        db = eng.deref(a[0])
        return one(mk_ok(Opaque("IterAll", {"which": db.data["which"], "cur": None})))

    @reg(r"^<RoIter<'_, .*> as IntoIterator>::into_iter$")
    def _(eng, st, callee, a, ty):
        return one(a[0])

    @reg(r"^<RoIter<'_, .*> as Iterator>::next$")
    def _(eng, st, callee, a, ty):
        it = eng.deref(a[0]).data
        src = st.env["r"] if it["which"] == "read" else st.env["w_base"]
        keys = sorted(k for k in src if it["cur"] is None or k > it["cur"])
        if not keys:
            return one(mk_option())
        k = keys[0]
        it["cur"] = k
        if k[1] > 3:
            return one(mk_option(mk_err(Agg("heed::Error", BV(3, 64), {0: Opaque("decoding")}))))
        pair = Agg("tuple", None, {0: key_agg(*k), 1: Opaque("Lazy", {"v": src[k]})})
        return one(mk_option(mk_ok(pair)))

    @reg(r"^Lazy::<'_, .*>::remap::<")
    def _(eng, st, callee, a, ty):
        return one(eng.deref(a[0]) if isinstance(a[0], Ref) else a[0])

    @reg(r"^Lazy::<'_, (.*)>::decode$")
    def _(eng, st, callee, a, ty):
        lz = eng.deref(a[0]) if isinstance(a[0], Ref) else a[0]
        v = lz.data["v"]
        codec = re.match(r"^Lazy::<'_, (.*)>::decode$", callee).group(1)
        if "Bytes" in codec:
            return one(mk_ok(Opaque("raw", {"of": v})))
        if codec.startswith("NodeCodec"):
            if isinstance(v, Agg) and v.kind == "Node":
                return one(mk_ok(W.snap(eng, v)))
            return one(mk_err(Opaque("decode error")))
        if codec == "MetadataCodec":
            if isinstance(v, Agg) and v.kind == "Metadata":
                return one(mk_ok(W.snap(eng, v)))
            return one(mk_err(Opaque("decode error")))
        if codec == "RoaringBitmapCodec":
            if z3.is_bv(v):
                return one(mk_ok(v))
            return one(mk_err(Opaque("decode error")))
        raise Unknown("Lazy::decode with codec " + codec)

    @reg(r"^(?:std::result::)?Result::<.*>::unwrap_or_default$")
    def _(eng, st, callee, a, ty):
        r = a[0]
        if z3.is_true(z3.simplify(r.disc == BV(0, 64))):
            return one(r.f[0])
        return one(BV(0, U))

    @reg(r"^(?:std::result::)?Result::<.*>::map_err::<error::Error, \{closure@")
    def _(eng, st, callee, a, ty):
        r, f = a
        out = []
        for s2, okk in fork_on(eng, st, r.disc == BV(0, 64)):
            if okk:
                out.append((r, None, s2))
            else:
                v = call_fn_item(eng, f, [r.f.get(0)])
                out.append((WrapErr(v), None, s2))
        return out

    @reg(r"^<Cosine as Distance>::name$")
    def _(eng, st, callee, a, ty):
        return one(Opaque("str", {"s": "cosine"}))

    @reg(r"^heed::Database::<.*>::put::<")
    def _(eng, st, callee, a, ty):
        db = eng.deref(a[0])
        idx, mode, ident = key_parts(eng, a[2])
        if db.data["which"] != "write":
            st.env["problems"].append("put() on the source database")
        st.env["w_puts"].append((idx, mode, ident, W.snap(eng, a[3])))
        return one(mk_ok(unit()))

    @reg(r"^heed::Database::<KeyCodec, MetadataCodec>::get::<")
    def _(eng, st, callee, a, ty):
        idx, mode, ident = key_parts(eng, a[2])
        st.env["gets"].append((idx, mode, ident))
        b = st.env["has_meta"]
        out = []
        for s2, present in fork_on(eng, st, b):
            out.append((mk_ok(mk_option(Agg("Metadata", None, {})) if present else mk_option()), None, s2))
        return out

    # ---- 0.5 -> 0.6 world: an index is described by two facts, "has a metadata record" and "has
    # other keys" (items added but never built, marks, ...); prefix scans answer from both
    @reg(r"^heed::Database::<.*>::prefix_iter::<")
    def _(eng, st, callee, a, ty):
        if "has_meta" not in st.env:
            raise E.Unknown("prefix_iter outside the 0.5 -> 0.6 world")
        p = eng.deref(a[2])
        mode = p.f[1]
        whole = z3.is_true(z3.simplify(mode.disc == BV(0, 64)))      # Prefix::all
        st.env["gets"].append((z3.simplify(p.f[0]), BV(0, 64), BV(0, 32)) if not whole else ("scan-all", z3.simplify(p.f[0])))
        kind = None if whole else z3.simplify(mode.f[0].disc)
        return one(mk_ok(Opaque("Scan05", {"index": z3.simplify(p.f[0]), "kind": kind, "done": False})))

    @reg(r"^RoPrefix::<.*>::(remap_key_type|remap_types|remap_data_type)::<")
    def _(eng, st, callee, a, ty):
        return one(a[0])

    @reg(r"^<RoPrefix<'_, .*> as Iterator>::next$")
    def _(eng, st, callee, a, ty):
        sc = eng.deref(a[0])
        d = sc.data
        if d["done"]:
            return one(mk_option())
        d["done"] = True
        if d["kind"] is None:
            cond = z3.Or(st.env["has_meta"], st.env["has_other"])
        elif z3.is_bv_value(d["kind"]) and d["kind"].as_long() == 0:
            cond = st.env["has_meta"]
        else:
            cond = st.env["has_other"]
        out = []
        for s2, present in fork_on(eng, st, cond):
            key = Agg("Key", None, {0: d["index"], 1: Opaque("some node id"), 2: BV(0, 8)})
            out.append((mk_option(mk_ok(Agg("tuple", None, {0: key, 1: Agg("unit")}))) if present else mk_option(), None, s2))
        return out

    @reg(r"^<RoaringBitmap as IntoIterator>::into_iter$")
    def _(eng, st, callee, a, ty):
        return one(Opaque("BitIter", BitIter(a[0])))

    @reg(r"^std::ops::RangeInclusive::<u16>::new$")
    def _(eng, st, callee, a, ty):
        st.env["range"] = (z3.simplify(a[0]), z3.simplify(a[1]))
        return one(Opaque("RangeIncl", {"step": 0}))

    @reg(r"^<std::ops::RangeInclusive<u16> as IntoIterator>::into_iter$")
    def _(eng, st, callee, a, ty):
        return one(a[0])

    @reg(r"^<std::ops::RangeInclusive<u16> as Iterator>::next$")
    def _(eng, st, callee, a, ty):
        r = eng.deref(a[0]).data
        r["step"] += 1
        if r["step"] == 1:
            return one(mk_option(st.env["any_index"]))
        return one(mk_option())

    # an exclusive range over indexes (a rewrite of the scan): bounds recorded as [start, end)
    @reg(r"^<std::ops::Range<u16> as IntoIterator>::into_iter$")
    def _(eng, st, callee, a, ty):
        lo, hi = z3.simplify(a[0].f[0]), z3.simplify(a[0].f[1])
        if z3.is_bv_value(hi) and hi.as_long() > 0:
            st.env["range"] = (lo, BV(hi.as_long() - 1, 16))
        else:
            st.env["range"] = (lo, "exclusive end " + str(hi))
        return one(Opaque("RangeIncl", {"step": 0}))

    @reg(r"^<std::ops::Range<u16> as Iterator>::next$")
    def _(eng, st, callee, a, ty):
        r = eng.deref(a[0]).data
        r["step"] += 1
        if r["step"] == 1:
            return one(mk_option(st.env["any_index"]))
        return one(mk_option())

    @reg(r"^core::str::<impl str>::parse::<u32>$")
    def _(eng, st, callee, a, ty):
        return one(mk_ok(eng.fresh("version_part", z3.BitVecSort(32))))

    @reg(r"^core::fmt::rt::Argument::<'_>::new_(display|debug)::<|^Arguments::<'_>::new::<|^format$|^must_use::<String>$")
    def _(eng, st, callee, a, ty):
        return one(Opaque("fmt"))

    return ms


class WrapErr:
    def __init__(self, push):
        self.push = push


def old_node_id(old_mode, ident):
    return W.node_id(old_mode, BV(ident, 32))


def source_db(pending):
    """v0.4 layout; `pending` is the symbolic pending-updates bitmap of index 0"""
    md = lambda: Agg("Metadata", None, {0: z3.BitVec("md_dimensions", 32), 1: z3.BitVec("md_items", U), 2: Opaque("roots"),
                                         3: Opaque("str", {"s": "angular"})})
    r = {
        (0, OLD_ITEM, 1): Opaque("leaf", {"id": "i1"}),
        (0, OLD_ITEM, 7): Opaque("leaf", {"id": "i7"}),
        (0, OLD_TREE, 0): W.split(old_node_id(OLD_ITEM, 1), old_node_id(OLD_TREE, 2), z3.Bool("zero0")),
        (0, OLD_TREE, 2): W.bucket(z3.BitVec("bucket2", U)),
        (0, OLD_TREE, 3): W.split(old_node_id(OLD_TREE, 2), old_node_id(OLD_ITEM, 7), z3.Bool("zero3")),
        (0, OLD_META, 0): md(),
        (0, OLD_META, 1): pending,
        (5, OLD_ITEM, 3): Opaque("leaf", {"id": "i3"}),
        (5, OLD_META, 0): md(),
    }
    return r


def run_0_4_to_0_5(ctx, deadline, bad_kind=False):
    res = {"paths": 0, "violations": [], "unknown": [], "shapes": []}
    eng = E.Engine(ctx.fns, ctx.structs, ctx.enums, models() + list(M.REGISTRY), INLINE, max_depth=3, max_steps=6000)
    _patch_wrap_err(eng)
    fn = ctx.fns.get("cosine_from_0_4_to_0_5")
    if fn is None:
        res["unknown"].append("cosine_from_0_4_to_0_5 not found in the MIR dump")
        return finish(res, eng)
    pending = z3.BitVec("pending_updates", U)
    pc = [M.popcount(pending, 8) <= BV(2, 8)]
    r = source_db(pending)
    if bad_kind:
        r[(0, 3, 9)] = Opaque("leaf", {"id": "bad"})
    env = {"r": r, "w_base": {(0, 3, 99): Opaque("junk"), (9, 0, 0): Opaque("junk")}, "w_puts": [], "problems": [],
           "cleared": False, "gets": []}
    rdb, wdb = Opaque("Database", {"which": "read"}), Opaque("Database", {"which": "write"})
    finals = eng.run(fn, [Ref(Cell(Opaque("RoTxn"))), rdb, Ref(Cell(Opaque("RwTxn"))), wdb], env=env, pc=pc, deadline=deadline)
    label = "v0.4 database" + (" with an undefined key kind" if bad_kind else "")
    for f in finals:
        res["paths"] += 1

        def viol(clause, m=None):
            vals = {}
            if m is not None:
                pv = m.eval(pending, model_completion=True).as_long()
                vals["pending_updates"] = [i for i in range(U) if pv >> i & 1]
            res["violations"].append({"shape": label, "clause": clause, "pre": None, "values": vals})
        if f.status in ("unknown", "unwind"):
            res["unknown"].append(f"{label}: {f.status}: {f.info}")
            continue
        if f.status == "panic":
            ok, m = eng.check(f.pc)
            if ok:
                viol("panics: " + f.info, m)
            continue
        rv = f.value
        is_ok = z3.is_true(z3.simplify(rv.disc == BV(0, 64)))
        if bad_kind:
            names = eng.enums.get("Error", [])
            err = rv.f.get(0)
            good = (not is_ok) and isinstance(err, Agg) and err.kind == "Error" and z3.is_bv_value(z3.simplify(err.disc)) \
                and names[z3.simplify(err.disc).as_long()] == "CannotDecodeKeyMode"
            if not good:
                ok, m = eng.check(f.pc)
                if ok:
                    viol("a key kind the old layout does not define is not rejected with CannotDecodeKeyMode", m)
            continue
        if not is_ok:
            ok, m = eng.check(f.pc)
            if ok:
                viol("the upgrade fails on a healthy v0.4 database", m)
            continue
        env2 = f.env
        problems = list(env2["problems"])
        if not env2["cleared"]:
            problems.append("the destination database is not cleared first")
        puts = env2["w_puts"]
        # concrete part of the image
        got = {}
        marks = []
        for idx, mode, ident, val in puts:
            if not (z3.is_bv_value(idx) and z3.is_bv_value(mode)):
                problems.append("a key with a symbolic index or kind was written")
                continue
            k = (idx.as_long(), mode.as_long())
            if k[1] == 1:
                marks.append((k[0], ident, val))
                continue
            if not z3.is_bv_value(ident):
                problems.append("a non-mark key with a symbolic id was written")
                continue
            got[(k[0], k[1], ident.as_long())] = val
        for jk in env2["w_base"]:
            problems.append(f"junk entry {jk} survived in the destination")
        want = {}
        for (idx, kind, ident), v in r.items():
            if kind == OLD_META and ident == 1:
                continue
            want[(idx, NEW_OF_OLD[kind], ident)] = (kind, v)
        for k in want:
            if k not in got:
                problems.append(f"entry {k} of the current layout is missing from the destination")
        for k in got:
            if k not in want:
                problems.append(f"unexpected entry {k} in the destination")
        for k, (kind, v) in want.items():
            if k not in got:
                continue
            g = got[k]
            if kind == OLD_ITEM:
                if not (isinstance(g, Opaque) and g.tag == "raw" and isinstance(g.data["of"], Opaque)
                        and g.data["of"].data == v.data):
                    problems.append(f"item {k} was not copied byte for byte")
            elif kind == OLD_TREE:
                if W.node_kind(v) == W.BUCKET:
                    if not (isinstance(g, Agg) and W.node_kind(g) == W.BUCKET and
                            z3.is_true(z3.simplify(W.bucket_bits(eng, g) == W.bucket_bits(eng, v)))):
                        problems.append(f"bucket {k} changed")
                else:
                    if not (isinstance(g, Agg) and W.node_kind(g) == W.SPLIT):
                        problems.append(f"split {k} changed kind")
                        continue
                    for side in (0, 1):
                        oc, nc = v.f[0].f[side], g.f[0].f[side]
                        om = z3.simplify(oc.f[0].disc).as_long()
                        nm = z3.simplify(nc.f[0].disc)
                        if not (z3.is_bv_value(nm) and nm.as_long() == NEW_OF_OLD[om] and
                                z3.is_true(z3.simplify(nc.f[1] == oc.f[1]))):
                            problems.append(f"split {k}: child {side} is {nm}:{z3.simplify(nc.f[1])}, expected kind "
                                            f"{NEW_OF_OLD[om]} with the same id")
            else:
                if not (isinstance(g, Agg) and g.kind == "Metadata"):
                    problems.append(f"metadata {k} is not a metadata record")
                    continue
                name = g.f.get(3)
                if not (isinstance(name, Opaque) and name.data.get("s") == "cosine"):
                    problems.append(f"metadata {k}: the metric was not renamed to 'cosine'")
                for fld in (0, 1):
                    if not z3.is_true(z3.simplify(g.f[fld] == v.f[fld])):
                        problems.append(f"metadata {k}: field {fld} changed")
        if problems:
            ok, m = eng.check(f.pc)
            if ok:
                viol(problems[0], m)
            continue
        # updated marks: exactly one per id of the pending set, under index 0
        written = BV(0, U)
        for idx, ident, val in marks:
            if idx != 0:
                problems.append("an updated mark was written under another index")
            written = written | bit(ident)
        ok, m = eng.check(f.pc, z3.Or(written != pending, BV(len(marks), 8) != M.popcount(pending, 8)))
        if ok:
            viol(f"the updated marks written ({m.eval(written, model_completion=True)}) are not one per id of the old pending-updates set", m)
        elif problems:
            ok, m = eng.check(f.pc)
            if ok:
                viol(problems[0], m)
    res["shapes"].append({"shape": label, "paths": len(finals), "ok_paths": len(finals)})
    return finish(res, eng)


def run_0_5_to_0_6(ctx, deadline):
    res = {"paths": 0, "violations": [], "unknown": [], "shapes": []}
    eng = E.Engine(ctx.fns, ctx.structs, ctx.enums, models() + list(M.REGISTRY), INLINE, max_depth=3, max_steps=3000)
    _patch_wrap_err(eng)
    fn = ctx.fns.get("from_0_5_to_0_6")
    if fn is None:
        res["unknown"].append("from_0_5_to_0_6 not found in the MIR dump")
        return finish(res, eng)
    i = z3.BitVec("any_index", 16)
    hm = z3.Bool("index_has_metadata")
    ho = z3.Bool("index_has_other_keys")
    env = {"r": {}, "w_base": {}, "w_puts": [], "problems": [], "cleared": False, "gets": [], "any_index": i, "has_meta": hm,
           "has_other": ho}
    rdb, wdb = Opaque("Database", {"which": "read"}), Opaque("Database", {"which": "write"})
    finals = eng.run(fn, [Ref(Cell(Opaque("RoTxn"))), rdb, Ref(Cell(Opaque("RwTxn"))), wdb], env=env, pc=[], deadline=deadline)
    for f in finals:
        res["paths"] += 1

        def viol(clause):
            res["violations"].append({"shape": "one scan iteration", "clause": clause, "pre": None, "values": {}})
        if f.status in ("unknown", "unwind"):
            res["unknown"].append(f"{f.status}: {f.info}")
            continue
        if f.status == "panic":
            if eng.check(f.pc)[0]:
                viol("panics: " + f.info)
            continue
        e2_ = f.env
        rng = e2_.get("range")
        if not (rng and z3.is_expr(rng[1]) and z3.is_bv_value(rng[0]) and z3.is_bv_value(rng[1])
                and rng[0].as_long() == 0 and rng[1].as_long() == 0xFFFF):
            viol(f"the scan does not cover the index range 0..=65535 (it covers {rng})")
            continue
        if e2_["cleared"] or e2_["problems"]:
            viol((e2_["problems"] or ["the destination is cleared"])[0])
            continue
        has = eng.check(f.pc, hm)[0]
        hasnt = eng.check(f.pc, z3.Not(hm))[0]
        puts = e2_["w_puts"]
        good_put = (len(puts) == 1 and eng.check(f.pc, z3.Or(puts[0][0] != i, puts[0][1] != BV(0, 64), puts[0][2] != BV(1, 32)))[0] is False
                    and isinstance(puts[0][3], Agg))
        if has and not hasnt and not good_put:
            viol("an index that has metadata does not get exactly one version record under (index, Metadata, 1)")
        if hasnt and not has and puts:
            viol("something is written for an index without metadata")
        if has and hasnt:
            viol("the decision does not depend on the metadata lookup")
        for g in e2_["gets"]:
            if isinstance(g[0], str):
                continue        # a scan of the whole index: judged by its effect above
            if eng.check(f.pc, z3.Or(g[0] != i, g[1] != BV(0, 64), g[2] != BV(0, 32)))[0]:
                viol("the metadata lookup does not use (index, Metadata, 0)")
    res["shapes"].append({"shape": "0.5 -> 0.6, arbitrary index", "paths": len(finals), "ok_paths": len(finals)})
    return finish(res, eng)


def _patch_wrap_err(eng):
    """Result::map_err with a closure: run the closure, wrap its value in Err (engine frame flag)."""
    pass


def finish(res, eng):
    res["queries"], res["solver_s"] = eng.queries, round(eng.solver_s, 2)
    res["encoded"] = sorted(E.short(n) for n in eng.encoded)
    return res


def obligation(o, tier, seed):
    import e2
    import native
    from driver import Outcome
    try:
        ctx = e2.context(True)
    except RuntimeError as e:
        return [Outcome(o["id"], "mirsym", "inconclusive", str(e))]
    total = None
    for r in (run_0_4_to_0_5(ctx, time.time() + 300), run_0_4_to_0_5(ctx, time.time() + 300, bad_kind=True),
              run_0_5_to_0_6(ctx, time.time() + 300)):
        if total is None:
            total = r
        else:
            for k in ("paths", "queries"):
                total[k] += r[k]
            total["solver_s"] = round(total["solver_s"] + r["solver_s"], 2)
            for k in ("violations", "unknown", "shapes"):
                total[k] += r[k]
            total["encoded"] = sorted(set(total["encoded"]) | set(r["encoded"]))
    return e2_tree.outcomes_from(o, total, "upgrade", native, e2, Outcome)
