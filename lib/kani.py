"""Engine E1: Kani harnesses compiled inside a scratch copy of the current tree."""
import os
import re
import shutil
import time

from common import HARNESS, Scratch, log, run

# parent module of a harness file (prefix of the file name) -> arroy source file that declares it
PARENTS = {
    "lib": "src/lib.rs",
    "key": "src/key.rs",
    "node": "src/node.rs",
    "node_id": "src/node_id.rs",
    "metadata": "src/metadata.rs",
    "version": "src/version.rs",
    "writer": "src/writer.rs",
    "reader": "src/reader.rs",
    "parallel": "src/parallel.rs",
    "upgrade": "src/upgrade.rs",
    "distance": "src/distance/mod.rs",
    "spaces": "src/spaces/mod.rs",
    "unaligned_vector": "src/unaligned_vector/mod.rs",
    "bq": "src/unaligned_vector/binary_quantized.rs",
    "item_iter": "src/item_iter.rs",
}

UTIL = "lib.verif_util.rs"


class KaniResult:
    def __init__(self, name):
        self.name = name
        self.status = "inconclusive"   # holds | fails | inconclusive
        self.reason = "no result parsed"
        self.checks = 0
        self.failed = 0
        self.covers_sat = 0
        self.covers_total = 0
        self.time_s = 0.0
        self.failed_checks = []
        self.stubs = []
        self.replay = None

    def as_dict(self):
        return {k: getattr(self, k) for k in
                ("name", "status", "reason", "checks", "failed", "covers_sat", "covers_total",
                 "time_s", "failed_checks", "stubs")}


def prepare_scratch(tag, module_files, models=True, file_io=True):
    """Scratch copy of the current tree with the harness modules injected."""
    s = Scratch(tag)
    if models:
        s.use_models()
    else:
        s.standalone_workspace()
    if file_io:
        s.model_file_io()
    files = [UTIL] + [m for m in module_files if m != UTIL]
    for f in files:
        parent, mod = f.split(".")[0], f.split(".")[1]
        if parent not in PARENTS:
            raise RuntimeError(f"unknown parent module for harness file {f}")
        if not os.path.exists(s.path(PARENTS[parent])):
            s.missing.append(f"{PARENTS[parent]} (parent of {f})")
            continue
        # the harness file is copied into the scratch tree (concrete playback edits it in place)
        hd = s.path("src", "verif_h")
        os.makedirs(hd, exist_ok=True)
        dst = os.path.join(hd, f)
        shutil.copy(os.path.join(HARNESS, "kani", f), dst)
        s.inject_mod(PARENTS[parent], mod, dst)
    return s


_NONVIOLATION_PAT = re.compile(
    r"unwinding assertion|is not currently supported|unsupported|roaring model:|tempfile model:|"
    r"model: |heed model:|recursion unwinding|Kani does not support", re.I)


def parse_output(out, names):
    """Parse `cargo kani -j N --output-format terse` output into per-harness results."""
    res = {n: KaniResult(n) for n in names}
    thread_h = {}
    lines = out.splitlines()
    i = 0
    cur_thread = None
    # sequential (no -j) output has no "Thread N:" prefix; handle both
    cur_name = None
    while i < len(lines):
        ln = lines[i]
        m = re.match(r"^(?:Thread (\d+): )?Checking harness (\S+?)\.\.\.", ln)
        if m:
            full = m.group(2)
            short = full.split("::")[-1]
            thread_h[m.group(1)] = short
            cur_name = short
            i += 1
            continue
        m = re.match(r"^(?:Thread (\d+): )?\s+- Stub: (.*)$", ln)
        if m:
            h = thread_h.get(m.group(1), cur_name)
            if h in res:
                res[h].stubs.append(m.group(2).replace(" ", ""))
            i += 1
            continue
        m = re.match(r"^Thread (\d+): \s*$", ln)
        if m:
            cur_thread = m.group(1)
            i += 1
            continue
        if ln.strip() == "CBMC failed":
            h = thread_h.get(cur_thread, cur_name) if cur_thread is not None else cur_name
            r = res.get(h)
            why = " ".join(x.strip() for x in lines[i + 1:i + 4] if x.strip())
            if r is not None:
                r.status = "inconclusive"
                r.reason = "CBMC failed: " + why[:200]
            cur_thread = None
            i += 1
            continue
        if ln.startswith("VERIFICATION RESULT:") or ln.startswith("SUMMARY:"):
            h = thread_h.get(cur_thread, cur_name) if cur_thread is not None else cur_name
            r = res.get(h)
            j = i + 1
            block = []
            while j < len(lines) and not lines[j].startswith("Verification Time:"):
                block.append(lines[j])
                j += 1
            if j < len(lines):
                mt = re.match(r"Verification Time: ([0-9.]+)s", lines[j])
            else:
                mt = None
            if r is not None:
                if mt:
                    r.time_s = float(mt.group(1))
                for b in block:
                    mm = re.match(r"\s*\*\* (\d+) of (\d+) failed", b)
                    if mm:
                        r.failed, r.checks = int(mm.group(1)), int(mm.group(2))
                    mm = re.match(r"\s*\*\* (\d+) of (\d+) cover properties satisfied", b)
                    if mm:
                        r.covers_sat, r.covers_total = int(mm.group(1)), int(mm.group(2))
                    mm = re.match(r"\s*Failed Checks: (.*)$", b)
                    if mm:
                        r.failed_checks.append(mm.group(1).strip())
                txt = "\n".join(block)
                if "VERIFICATION:- SUCCESSFUL" in txt:
                    if r.covers_total and r.covers_sat < r.covers_total:
                        r.status = "inconclusive"
                        r.reason = (f"vacuity guard: only {r.covers_sat} of {r.covers_total} "
                                    "reachability witnesses satisfied")
                    else:
                        r.status, r.reason = "holds", "VERIFICATION SUCCESSFUL"
                elif "VERIFICATION:- FAILED" in txt:
                    # CBMC's --nan-check (on by default under Kani) flags float operations that may
                    # produce NaN; NaN is a legal f32 value in Rust, not a panic: ignored
                    nan_only = [c for c in r.failed_checks if re.match(r"^NaN on ", c)]
                    others = [c for c in r.failed_checks if not re.match(r"^NaN on ", c)]
                    if nan_only and not others and not (r.covers_total and r.covers_sat < r.covers_total) \
                            and r.failed == len(nan_only):
                        r.status, r.reason = "holds", "VERIFICATION SUCCESSFUL (CBMC NaN-production checks ignored)"
                        r.failed_checks = []
                        cur_thread = None
                        i = j + 1
                        continue
                    r.failed_checks = others
                    real = [c for c in r.failed_checks if not _NONVIOLATION_PAT.search(c)]
                    if real and not re.search(r"CBMC (failed|timed out)|out of memory|Status: ERROR", txt, re.I):
                        r.status = "fails"
                        r.reason = "; ".join(real[:4])
                    else:
                        r.status = "inconclusive"
                        r.reason = "; ".join(r.failed_checks[:4]) or "FAILED without a failed user check"
                else:
                    r.status, r.reason = "inconclusive", "no verdict line"
            cur_thread = None
            i = j + 1
            continue
        i += 1
    for m in re.finditer(r"(?:Thread \d+: )?Harness (\S+) timed out", out):
        short = m.group(1).split("::")[-1]
        if short in res:
            res[short].status, res[short].reason = "inconclusive", "harness timeout"
    return res


def kani_cmd(names, jobs, harness_timeout, target_dir, extra=()):
    cmd = ["cargo", "kani", "-Z", "stubbing", "-Z", "unstable-options",
           "--harness-timeout", f"{int(harness_timeout)}s", "--target-dir", target_dir,
           "--output-format", "terse", "-j", str(jobs)]
    for n in names:
        cmd += ["--harness", n]
    cmd += list(extra)
    return cmd


def run_harnesses(scratch, names, jobs=8, harness_timeout=600, total_timeout=None, mem_gb=40,
                  extra=()):
    """Run the named harnesses in `scratch`; returns ({name: KaniResult}, raw output, seconds)."""
    target = os.path.join(scratch.dir, "target-kani")
    cmd = kani_cmd(names, min(jobs, max(1, len(names))), harness_timeout, target, extra)
    if total_timeout is None:
        total_timeout = 180 + harness_timeout * (1 + len(names) // max(1, jobs)) + 120
    rc, out, dt = run(cmd, cwd=scratch.repo, timeout=total_timeout,
                      logfile=os.path.join(scratch.dir, "kani.log"))
    res = parse_output(out, names)
    compile_failed = "error: could not compile" in out or "Failed to execute cargo" in out
    if compile_failed:
        errs = [l for l in out.splitlines() if l.startswith("error")][:6]
        for r in res.values():
            r.status = "inconclusive"
            r.reason = "harness does not compile against the current tree: " + " | ".join(errs)
    elif rc == -9:
        for r in res.values():
            if r.reason == "no result parsed":
                r.reason = "overall timeout"
    return res, out, dt


def concrete_playback(scratch, name, harness_timeout=900):
    """Re-run one failing harness with concrete playback; returns the generated unit test text
    (or None) -- used to build the replay file and to confirm the counterexample natively."""
    target = os.path.join(scratch.dir, "target-kani")
    cmd = ["cargo", "kani", "-Z", "stubbing", "-Z", "unstable-options", "-Z", "concrete-playback",
           "--concrete-playback=print", "--harness-timeout", f"{int(harness_timeout)}s",
           "--target-dir", target, "--harness", name]
    rc, out, dt = run(cmd, cwd=scratch.repo, timeout=harness_timeout + 300)
    m = re.search(r"```\s*\n(.*?)```", out, re.S)
    test = m.group(1) if m else None
    return test, out


def native_playback(scratch, name, harness_timeout=900):
    """Confirm a Kani counterexample on the natively compiled code (dev profile): generate the
    concrete-playback unit test in place and run it with `cargo kani playback`.  The test
    reproduces the violation iff it fails (panics) natively."""
    target = os.path.join(scratch.dir, "target-kani")
    cmd = ["cargo", "kani", "-Z", "stubbing", "-Z", "unstable-options", "-Z", "concrete-playback",
           "--concrete-playback=inplace", "--harness-timeout", f"{int(harness_timeout)}s",
           "--target-dir", target, "--harness", name]
    rc, out, dt = run(cmd, cwd=scratch.repo, timeout=harness_timeout + 300)
    tn, src = None, None
    hd = scratch.path("src", "verif_h")
    for f in os.listdir(hd):
        txt = open(os.path.join(hd, f)).read()
        mm = re.search(r"(#\[test\]\s*fn (kani_concrete_playback_%s\w*)\(\) \{.*?\n\})" % re.escape(name), txt, re.S)
        if mm:
            tn, src = mm.group(2), mm.group(1)
    if not tn:
        return {"reproduced": None, "note": "no playback test generated", "tail": out[-800:]}
    # the repository's out-of-line test modules need dev-dependencies the scratch copy dropped
    for root, _d, files in os.walk(scratch.path("src")):
        for f in files:
            if f.endswith(".rs") and "verif_h" not in root:
                fp = os.path.join(root, f)
                txt = open(fp).read()
                new = re.sub(r"#\[cfg\(test\)\]\s*\n(\s*mod \w+;)", r"#[cfg(any())]\n\1", txt)
                if new != txt:
                    open(fp, "w").write(new)
    cmd = ["cargo", "kani", "playback", "-Z", "concrete-playback", "--", tn]
    rc, out2, dt2 = run(cmd, cwd=scratch.repo, timeout=1200)
    failed = bool(re.search(r"test result: FAILED|panicked at", out2))
    passed = bool(re.search(r"test result: ok\. [1-9]", out2))
    rep = True if failed else (False if passed else None)
    return {"reproduced": rep, "test": tn, "test_source": src, "profile": "dev", "tail": out2[-1500:]}


def discover_loops(scratch, name):
    """Build one harness (1 s verification budget, temps kept) and list the loops of its goto
    binary: [(loop_id, function, file, line)].  Loop ids embed crate hashes, so per-loop bounds are
    selected by *function name* at run time, never hard-coded."""
    import glob
    target = os.path.join(scratch.dir, "target-kani")
    cmd = ["cargo", "kani", "-Z", "stubbing", "-Z", "unstable-options", "--harness-timeout", "1s",
           "--target-dir", target, "--harness", name, "--keep-temps"]
    rc, out, dt = run(cmd, cwd=scratch.repo, timeout=900)
    fs = [f for f in glob.glob(target + "/kani/*/debug/build/arroy/*/out/*" + name + ".out")
          if "symtab" not in f]
    if not fs:
        return None, out
    rc, lo, dt = run(["cbmc", "--show-loops", fs[0]], timeout=300)
    loops = []
    cur = None
    for ln in lo.splitlines():
        m = re.match(r"^Loop (\S+):", ln)
        if m:
            cur = m.group(1)
            continue
        m = re.match(r"^\s*file (\S+) line (\d+)(?: column \d+)? function (.*)$", ln)
        if m and cur:
            loops.append((cur, m.group(3).strip(), m.group(1), int(m.group(2))))
            cur = None
    return loops, out


def run_with_unwindset(scratch, name, rules, harness_timeout=900):
    """rules: list of (regex on the loop's function name or file, bound).  Returns KaniResult."""
    loops, out = discover_loops(scratch, name)
    r0 = KaniResult(name)
    if loops is None:
        r0.reason = "could not build the harness to discover its loops"
        if "could not compile" in out:
            errs = [l for l in out.splitlines() if l.startswith("error")][:4]
            r0.reason = "harness does not compile against the current tree: " + " | ".join(errs)
        return r0, []
    sel = []
    for lid, fn, file, line in loops:
        for pat, bound in rules:
            if re.search(pat, fn) or re.search(pat, file):
                sel.append((lid, bound, fn))
                break
    target = os.path.join(scratch.dir, "target-kani")
    cmd = ["cargo", "kani", "-Z", "stubbing", "-Z", "unstable-options", "--harness-timeout",
           f"{int(harness_timeout)}s", "--target-dir", target, "--output-format", "terse",
           "--harness", name]
    if sel:
        cmd += ["--cbmc-args", "--unwindset", ",".join(f"{l}:{b}" for l, b, _ in sel)]
    rc, out, dt = run(cmd, cwd=scratch.repo, timeout=harness_timeout + 600)
    res = parse_output(out, [name])
    return res[name], [f"{fn} -> {b}" for _, b, fn in sel]
