"""E2: `Writer::build` itself, executed from its MIR over a key-value world (C01 composition for
bounded histories, C06, C10, C15 whole-build clauses).

The database is a dict of concrete keys (index, kind, id) -> abstract values; item ids are concrete;
what is symbolic: every `D::side` answer, every random draw, every zero/non-zero normal, the cancel
point.  A history is a sequence of rounds (adds, deletes, build options); each round's `build` is
executed from MIR on every state the previous round can produce (bounded by a state budget).  After
every successful build the oracle checks, on the resulting database: Inv for every root, metadata =
(items, roots), no updated mark left, root count as requested, bucket capacities.  rayon's parallel
map over the trees is executed sequentially (interleavings: C13)."""
import re
import time

import z3

from mirsym import engine as E
from mirsym import models as M
from mirsym import world as W
from mirsym.engine import BV, Agg, Cell, FnItem, Frame, Opaque, Ref, PANIC, Unknown
from mirsym.mir import find_fn
from mirsym.models import U, BitIter, bit, fork_on, mk_err, mk_ok, mk_option, one, popcount, unit, call_fn_item, PushCall

import e2_tree
import e2_metric

META, UPD, TREE, ITEM = 0, 1, 2, 3
IDX = 3

INLINE = e2_tree.INLINE + e2_metric.INLINE[:] + [
    (re.compile(r"^Writer::<D>::(pre_process_items|item_indices|reset_and_retrieve_updated_items|clear_db_and_create_a_single_leaf|"
                r"used_tree_node|delete_extra_trees|delete_items_from_trees|incremental_index_large_descendants)(::<R>)?$"),
     r"writer::.*::{name}$"),
    (re.compile(r"^Writer::<D>::insert_items_in_current_trees::<R>$"), r"writer::.*::insert_items_in_current_trees$"),
    (re.compile(r"^Writer::<D>::insert_items_in_tree::<R>$"), r"writer::.*::insert_items_in_tree$"),
    (re.compile(r"^target_n_trees$"), r"^target_n_trees$"),
    (re.compile(r"^NodeId::unwrap_item$"), r"node_id::.*::unwrap_item$"),
    (re.compile(r"^NodeId::unwrap_tree$"), r"node_id::.*::unwrap_tree$"),
    (re.compile(r"^Key::(version|updated|item|tree|metadata)$"), r"key::.*::{name}$", "-> Key"),
    (re.compile(r"^NodeId::(version|updated|metadata)$"), r"node_id::.*::{name}$"),
    (re.compile(r"^TmpNodesReader::to_delete$"), r"NEVER"),
]
INLINE = [e for e in INLINE if e[1] != r"NEVER"]


def as_int(t):
    t = z3.simplify(t)
    if not z3.is_bv_value(t):
        raise Unknown("a concrete value was expected in the build world, got " + str(t)[:60])
    return t.as_long()


def bits_to_ids(b):
    v = as_int(b)
    return [i for i in range(U) if v >> i & 1]


def ids_to_bits(ids):
    v = 0
    for i in ids:
        v |= 1 << i
    return BV(v, U)


def key_of(eng, keyref):
    key = eng.deref(keyref)
    return (as_int(key.f[0]), as_int(key.f[1].f[0].disc), as_int(key.f[1].f[1]))


def faulty_write(eng, st, effect, ok_value):
    """One database write: with a symbolic fault schedule (`db_fault_at` = k) the k-th write of the
    build fails with MDB_MAP_FULL and has no effect; otherwise `effect(state)` is applied."""
    st.env["writes"] = st.env.get("writes", 0) + 1
    k = st.env.get("db_fault_at")
    if k is None:
        return one(mk_ok(ok_value(effect(st))))
    outs = []
    for s2, fails in fork_on(eng, st, k == BV(st.env["writes"], 32)):
        if fails:
            s2.env["injected"] = True
            outs.append((mk_err(Agg("heed::Error", BV(1, 64), {0: Opaque("MDB_MAP_FULL")})), None, s2))
        else:
            outs.append((mk_ok(ok_value(effect(s2))), None, s2))
    return outs


def build_models(opts):
    ms = []

    def reg(pat):
        def deco(f):
            ms.append((re.compile(pat), f))
            return f
        return deco

    # ---------------- database
    @reg(r"^heed::Database::<.*>::get::<")
    def _(eng, st, callee, a, ty):
        k = key_of(eng, a[2])
        v = st.env["kv"].get(k)
        st.env["reads"] = st.env.get("reads", 0) + 1
        return one(mk_ok(mk_option(W.snap(eng, v)) if v is not None else mk_option()))

    @reg(r"^heed::Database::<.*>::put::<")
    def _(eng, st, callee, a, ty):
        k = key_of(eng, a[2])
        val = W.snap(eng, a[3])
        if isinstance(val, Ref):
            val = eng.deref(val)
        if isinstance(val, Opaque) and val.tag == "bytes":
            val = val.data["node"]      # raw put of bytes that TmpNodes serialised from a node

        def effect(s2):
            s2.env["kv"][k] = val
        return faulty_write(eng, st, effect, lambda _: unit())

    @reg(r"^heed::Database::<.*>::delete::<")
    def _(eng, st, callee, a, ty):
        k = key_of(eng, a[2])

        def effect(s2):
            existed = k in s2.env["kv"]
            s2.env["kv"].pop(k, None)
            return existed
        return faulty_write(eng, st, effect, lambda existed: z3.BoolVal(existed))

    @reg(r"^heed::Database::<.*>::delete_range::<")
    def _(eng, st, callee, a, ty):
        r = eng.deref(a[2])
        lo, hi = key_of(eng, Ref(Cell(r.f[0]))), key_of(eng, Ref(Cell(r.f[1])))
        inc = r.kind == "RangeInclusive"

        def effect(s2):
            dead = [k for k in s2.env["kv"] if k >= lo and (k <= hi if inc else k < hi)]
            for k in dead:
                del s2.env["kv"][k]
            return len(dead)
        return faulty_write(eng, st, effect, lambda n: BV(n, 64))

    @reg(r"^std::ops::RangeInclusive::<Key>::new$")
    def _(eng, st, callee, a, ty):
        return one(Agg("RangeInclusive", None, {0: a[0], 1: a[1]}))

    @reg(r"^<R[ow]Prefix<'_, .*> as IntoIterator>::into_iter$")
    def _(eng, st, callee, a, ty):
        return one(a[0])

    @reg(r"^<RoPrefix<'_, .*> as Iterator>::try_fold::<RoaringBitmap, \{closure@")
    def _(eng, st, callee, a, ty):
        # used_tree_node: fold the tree keys of the index into a bitmap through the closure's contract
        # (the closure polls cancellation and inserts the id); executed directly on the concrete world
        c = eng.deref(a[0]).data
        keys = sorted(k for k in st.env["kv"] if k[0] == c["index"] and (c["mode"] is None or k[1] == c["mode"]))
        acc = a[1]
        for k in keys:
            st.env["polls"] = st.env.get("polls", 0) + 1
            acc = acc | bit(BV(k[2], 32))
        st.env["fold_keys"] = keys
        return one(mk_ok(acc))

    @reg(r"^(?:std::result::)?Result::<RoaringBitmap, .*>::unwrap_or_default$")
    def _(eng, st, callee, a, ty):
        r = a[0]
        return one(r.f[0] if z3.is_true(z3.simplify(r.disc == BV(0, 64))) else BV(0, U))

    # ---------------- metadata / roots
    @reg(r"^Option::<metadata::Metadata<'_>>::as_ref$|^Option::<PathBuf>::as_ref$")
    def _(eng, st, callee, a, ty):
        o = eng.deref(a[0])
        if z3.is_true(z3.simplify(o.disc == BV(1, 64))):
            return one(mk_option(Ref(Cell(o.f[0]))))
        return one(mk_option())

    @reg(r"^Option::<&metadata::Metadata<'_>>::map_or_else::<Vec<u32>")
    def _(eng, st, callee, a, ty):
        o = a[0]
        if z3.is_true(z3.simplify(o.disc == BV(1, 64))):
            md = eng.deref(o.f[0])
            roots = md.f[2]
            return one(W.mk_vec(list(roots.f["ids"])))
        return one(W.mk_vec([]))

    @reg(r"^ItemIds::<'_>::from_slice$")
    def _(eng, st, callee, a, ty):
        v = eng.deref(a[0])
        while isinstance(v, Ref):
            v = eng.deref(v)
        items = v.f["items"] if isinstance(v, Agg) else list(v)
        return one(Agg("ItemIds", None, {"ids": list(items)}))

    @reg(r"^<Vec<u32> as Deref>::deref$|^<Vec<u32> as DerefMut>::deref_mut$")
    def _(eng, st, callee, a, ty):
        return one(a[0])

    @reg(r"^<D as Distance>::name$")
    def _(eng, st, callee, a, ty):
        return one(Opaque("str", {"s": "D"}))

    @reg(r"^<D as Distance>::preprocess::<")
    def _(eng, st, callee, a, ty):
        return one(mk_ok(unit()))

    @reg(r"^core::str::<impl str>::parse::<u32>$")
    def _(eng, st, callee, a, ty):
        return one(mk_ok(BV(0, 32)))

    @reg(r"^<u32 as TryFrom<usize>>::try_from$|^<usize as TryInto<u32>>::try_into$")
    def _(eng, st, callee, a, ty):
        return one(mk_ok(z3.Extract(31, 0, a[0])))

    # ---------------- slices of roots
    @reg(r"^core::slice::<impl \[u32\]>::iter_mut$")
    def _(eng, st, callee, a, ty):
        return one(Opaque("IterMut", {"vec": a[0], "i": 0}))

    @reg(r"^<std::slice::IterMut<'_, u32> as IntoIterator>::into_iter$")
    def _(eng, st, callee, a, ty):
        return one(a[0])

    @reg(r"^<std::slice::IterMut<'_, u32> as Iterator>::next$")
    def _(eng, st, callee, a, ty):
        it = eng.deref(a[0]).data
        vec = eng.deref(it["vec"])
        items = vec.f["items"]
        if it["i"] >= len(items):
            return one(mk_option())
        i = it["i"]
        it["i"] += 1
        # a reference to element i of the vector
        cell = Cell(items[i])
        st.env.setdefault("root_cells", []).append((vec, i, cell))
        return one(mk_option(Ref(cell)))

    @reg(r"^core::slice::<impl \[u32\]>::sort_unstable$")
    def _(eng, st, callee, a, ty):
        flush_root_cells(st)
        vec = eng.deref(a[0])
        vec.f["items"] = [BV(x, 32) for x in sorted(as_int(x) for x in vec.f["items"])]
        return one(unit())

    @reg(r"^core::slice::<impl \[u32\]>::is_empty$")
    def _(eng, st, callee, a, ty):
        return one(z3.BoolVal(len(slice_items(eng, a[0])) == 0))

    @reg(r"^core::slice::<impl \[u32\]>::len$|^Vec::<u32>::len$")
    def _(eng, st, callee, a, ty):
        return one(BV(len(slice_items(eng, a[0])), 64))

    # ---------------- temp nodes (one object per TmpNodes::new)
    @reg(r"^TmpNodes::<NodeCodec<D>>::(new|new_in)$")
    def _(eng, st, callee, a, ty):
        st.env["tmp_count"] = st.env.get("tmp_count", 0) + 1
        t = Agg("TmpNodes", None, {"puts": [], "deleted": [], "remap": []})
        return one(mk_ok(t))

    @reg(r"^TmpNodes::<NodeCodec<D>>::put$")
    def _(eng, st, callee, a, ty):
        t = eng.deref(a[0])
        if as_int(a[1]) == 0xFFFFFFFF:
            return [(PANIC, None, None)]
        t.f["puts"].append((as_int(a[1]), W.snap(eng, a[2])))
        return one(mk_ok(unit()))

    @reg(r"^TmpNodes::<NodeCodec<D>>::remove$")
    def _(eng, st, callee, a, ty):
        eng.deref(a[0]).f["deleted"].append(as_int(a[1]))
        return one(unit())

    @reg(r"^TmpNodes::<NodeCodec<D>>::remap$")
    def _(eng, st, callee, a, ty):
        eng.deref(a[0]).f["remap"].append((as_int(a[1]), as_int(a[2])))
        return one(unit())

    @reg(r"^TmpNodes::<NodeCodec<D>>::into_bytes_reader$")
    def _(eng, st, callee, a, ty):
        t = a[0]
        return one(mk_ok(Agg("TmpNodesReader", None, dict(t.f))))

    @reg(r"^TmpNodesReader::to_delete$")
    def _(eng, st, callee, a, ty):
        t = eng.deref(a[0])
        return one(Opaque("ListIter", {"items": [BV(x, 32) for x in sorted(set(t.f["deleted"]))], "i": 0}))

    @reg(r"^TmpNodesReader::to_insert$")
    def _(eng, st, callee, a, ty):
        # contract of to_insert (checked against the real code by the Kani harness tmp_nodes_reader_contract):
        # every put whose id was not removed, in order, with remapped ids
        t = eng.deref(a[0])
        remap = dict(t.f["remap"])
        dead = set(t.f["deleted"])
        items = [Agg("tuple", None, {0: BV(remap.get(i, i), 32), 1: Opaque("bytes", {"node": n})})
                 for i, n in t.f["puts"] if i not in dead]
        return one(Opaque("ListIter", {"items": items, "i": 0}))

    @reg(r"^<impl Iterator<Item = u32> \+ '_ as Iterator>::next$|^<impl Iterator<Item = \(u32, &\[u8\]\)> as Iterator>::next$|"
         r"^<roaring::bitmap::Iter<'_> as Iterator>::next$|^<std::iter::Map<std::iter::Map<std::iter::Filter<.* as Iterator>::next$|"
         r"^<std::slice::Iter<'_, \(TmpNodesReader, RoaringBitmap\)> as Iterator>::next$")
    def _(eng, st, callee, a, ty):
        it = eng.deref(a[0])
        if isinstance(it, Opaque) and it.tag == "ListIter":
            d = it.data
            if d["i"] >= len(d["items"]):
                return one(mk_option())
            x = d["items"][d["i"]]
            d["i"] += 1
            return one(mk_option(x))
        if isinstance(it, Opaque) and it.tag == "BitIter":
            return M.m_bm_iter_next(eng, st, callee, a, ty)
        raise Unknown("iterator of kind " + repr(it))

    @reg(r"^<impl Iterator<Item = .*> as IntoIterator>::into_iter$|^<std::iter::Map<std::iter::Map<std::iter::Filter<.* as IntoIterator>::into_iter$|"
         r"^<std::slice::Iter<'_, \(TmpNodesReader, RoaringBitmap\)> as IntoIterator>::into_iter$")
    def _(eng, st, callee, a, ty):
        return one(a[0])

    @reg(r"^heed::Database::<KeyCodec, heed::heed_types::Bytes>::put::<")
    def _(eng, st, callee, a, ty):
        k = key_of(eng, a[2])
        v = eng.deref(a[3]) if isinstance(a[3], Ref) else a[3]
        if not (isinstance(v, Opaque) and v.tag == "bytes"):
            raise Unknown("raw put of unexpected bytes")
        node = v.data["node"]

        def effect(s2):
            s2.env["kv"][k] = node
        return faulty_write(eng, st, effect, lambda _: unit())

    @reg(r"^<Vec<\(TmpNodesReader, RoaringBitmap\)> as Deref>::deref$")
    def _(eng, st, callee, a, ty):
        return one(a[0])

    @reg(r"^core::slice::<impl \[\(TmpNodesReader, RoaringBitmap\)\]>::iter$")
    def _(eng, st, callee, a, ty):
        v = eng.deref(a[0])
        return one(Opaque("ListIter", {"items": [Ref(Cell(x)) for x in v.f["items"]], "i": 0}))

    # ---------------- frozen readers
    @reg(r"^ImmutableTrees::<'_, D>::(new|sub_tree_from_id)$")
    def _(eng, st, callee, a, ty):
        idx = as_int(a[2])
        snap_ = {k[2]: W.snap(eng, v) for k, v in st.env["kv"].items() if k[0] == idx and k[1] == TREE}
        return one(mk_ok(Opaque("ImmutableTrees", {"nodes": snap_})))

    @reg(r"^ImmutableTrees::<'_, D>::empty$")
    def _(eng, st, callee, a, ty):
        return one(Opaque("ImmutableTrees", {"nodes": {}}))

    @reg(r"^ImmutableTrees::<'_, D>::get$")
    def _(eng, st, callee, a, ty):
        t = eng.deref(a[0])
        n = t.data["nodes"].get(as_int(a[1]))
        return one(mk_ok(mk_option(n) if n is not None else mk_option()))

    @reg(r"^ImmutableLeafs::<'_, D>::new$")
    def _(eng, st, callee, a, ty):
        # below the 200-leaf minimum batch every candidate is selected and removed from the candidates
        # (C14's batching is not applicable); a candidate without a stored leaf makes the real code panic
        idx = as_int(a[2])
        cand = M.bitmap_of(eng, a[3])
        ids = bits_to_ids(cand)
        for i in ids:
            if (idx, ITEM, i) not in st.env["kv"]:
                return [(PANIC, None, None)]
        eng.store(a[3], BV(0, U))
        leafs = Opaque("ImmutableLeafs", {"ids": set(ids)})
        return one(mk_ok(Agg("tuple", None, {0: leafs, 1: cand})))

    @reg(r"^ImmutableLeafs::<'_, D>::get$")
    def _(eng, st, callee, a, ty):
        l = eng.deref(a[0])
        i = as_int(a[1])
        if i in l.data["ids"]:
            return one(mk_ok(mk_option(Agg("Leaf", None, {0: Opaque("header"), 1: Opaque("vector", {"id": BV(i, 32)})}))))
        return one(mk_ok(mk_option()))

    # ---------------- rayon: repeatn(seed, n).zip(roots).map(closure).collect(), executed sequentially
    @reg(r"^<R as RngCore>::next_u64$")
    def _(eng, st, callee, a, ty):
        return one(eng.fresh("seed", z3.BitVecSort(64)))

    @reg(r"^<R as SeedableRng>::seed_from_u64$")
    def _(eng, st, callee, a, ty):
        return one(Opaque("rng"))

    @reg(r"^repeatn::<u64>$")
    def _(eng, st, callee, a, ty):
        return one(Opaque("RepeatN", {"v": a[0], "n": a[1]}))

    @reg(r"^<rayon::iter::RepeatN<u64> as rayon::iter::IndexedParallelIterator>::zip::<&\[u32\]>$")
    def _(eng, st, callee, a, ty):
        return one(Opaque("ParZip", {"v": a[0].data["v"], "roots": list(slice_items(eng, a[1]))}))

    @reg(r"^<rayon::iter::Zip<.*> as rayon::iter::ParallelIterator>::map::<\{closure@")
    def _(eng, st, callee, a, ty):
        return one(Opaque("ParMap", {"zip": a[0], "f": a[1]}))

    @reg(r"^<rayon::iter::Map<.*> as rayon::iter::ParallelIterator>::collect::<")
    def _(eng, st, callee, a, ty):
        pm = a[0].data
        roots = pm["zip"].data["roots"]
        st.env["par_jobs"] = {"f": pm["f"], "seed": pm["zip"].data["v"], "roots": roots, "i": 0, "out": []}
        return par_step(eng, st)

    @reg(r"^__par_continue__$")
    def _(eng, st, callee, a, ty):
        return par_step(eng, st)

    @reg(r"^randomly_split_children::<R>$")
    def _(eng, st, callee, a, ty):
        # contract of randomly_split_children (checked against its MIR by make_tree_step) under the
        # fair-RNG assumption: both sides non-empty.  With concrete id sets the split is enumerated.
        s_bits = M.bitmap_of(eng, a[1])
        ids = bits_to_ids(s_bits)
        outs = []
        n = len(ids)
        combos = [m for m in range(1, (1 << n) - 1)]
        for ci, m in enumerate(combos):
            left = [ids[j] for j in range(n) if (m >> j) & 1]
            s2 = st if ci == len(combos) - 1 else st.clone()
            l_ref = a[2] if s2 is st else W._ref_in(eng, st, s2, a[2])
            r_ref = a[3] if s2 is st else W._ref_in(eng, st, s2, a[3])
            eng.store(l_ref, ids_to_bits(left))
            eng.store(r_ref, ids_to_bits([i for i in ids if i not in left]))
            outs.append((unit(), None, s2))
        if not outs:
            eng.store(a[2], s_bits)
            eng.store(a[3], BV(0, U))
            return one(unit())
        return outs

    @reg(r"^std::f64::<impl f64>::floor$")
    def _(eng, st, callee, a, ty):
        return one(a[0])

    @reg(r"^<PathBuf as Deref>::deref$")
    def _(eng, st, callee, a, ty):
        return one(a[0])

    @reg(r"^core::fmt::rt::Argument::<'_>::new_|^Arguments::<'_>::(new|from_str)")
    def _(eng, st, callee, a, ty):
        return one(Opaque("fmt"))

    return ms


def slice_items(eng, ref):
    v = eng.deref(ref)
    while isinstance(v, Ref):
        v = eng.deref(v)
    if isinstance(v, Agg) and "items" in v.f:
        return v.f["items"]
    if isinstance(v, list):
        return v
    raise Unknown("slice of " + repr(v)[:60])


def flush_root_cells(st):
    for vec, i, cell in st.env.get("root_cells", []):
        vec.f["items"][i] = cell.v
    st.env["root_cells"] = []


class ParDriver:
    """Sequential execution of the rayon map: run the closure for root i, collect its Result, go on."""


def par_step(eng, st):
    job = st.env["par_jobs"]
    if "pending" in job:
        # a closure call just returned into job['pending']
        r = job["pending"].v
        del job["pending"]
        if not z3.is_true(z3.simplify(r.disc == BV(0, 64))):
            return one(r)           # collect::<Result<Vec<_>, _>> stops at the first error
        job["out"].append(r.f[0])
    if job["i"] >= len(job["roots"]):
        return one(mk_ok(W.mk_vec(job["out"])))
    root = job["roots"][job["i"]]
    job["i"] += 1
    cell = Cell(None)
    job["pending"] = cell
    arg = Agg("tuple", None, {0: job["seed"], 1: Ref(Cell(root))})
    return one(ParCall(call_fn_item(eng, job["f"], [arg]), par_cont))


def par_cont(eng, st, rv):
    st.env["par_jobs"]["pending"].v = rv
    return par_step(eng, st)


ParCall = M.ParCall


# ---------------------------------------------------------------------------------------------
def check_database(kv, index, expect_items, opts):
    """Plain (concrete) oracle on the database after a successful build."""
    md = kv.get((index, META, 0))
    if md is None:
        return "no metadata after a successful build"
    items_md = set(i for i in range(U) if (z3.simplify(md.f[1]).as_long() >> i) & 1)
    stored = set(k[2] for k in kv if k[0] == index and k[1] == ITEM)
    if stored != set(expect_items):
        return f"stored items {sorted(stored)} differ from the history's {sorted(expect_items)}"
    if items_md != stored:
        return f"metadata lists items {sorted(items_md)}, stored are {sorted(stored)}"
    if any(k[0] == index and k[1] == UPD for k in kv):
        return "an updated mark survives a successful build"
    roots = [z3.simplify(x).as_long() for x in md.f[2].f["ids"]]
    tree_keys = set(k[2] for k in kv if k[0] == index and k[1] == TREE)
    seen = set()
    cap = opts.get("split_after")
    for r in roots:
        reached = []
        stack = [(TREE, r)]
        while stack:
            mode, x = stack.pop()
            if mode == ITEM:
                reached.append(x)
                continue
            if x in seen:
                return f"tree node {x} is reached twice / shared between trees"
            seen.add(x)
            n = kv.get((index, TREE, x))
            if n is None:
                return f"tree {r} refers to the missing tree node {x}"
            if not isinstance(n, Agg):
                return f"tree key {x} holds {n!r}, not a tree node"
            k = W.node_kind(n)
            if k == W.BUCKET:
                b = z3.simplify(n.f[0].f[0].f[0])
                ids = [i for i in range(U) if (b.as_long() >> i) & 1]
                if cap is not None and len(ids) > cap:
                    return f"bucket {x} holds {len(ids)} items, split_after is {cap}"
                reached += ids
            elif k == W.SPLIT:
                for c in (n.f[0].f[0], n.f[0].f[1]):
                    stack.append((z3.simplify(c.f[0].disc).as_long(), z3.simplify(c.f[1]).as_long()))
            else:
                return f"leaf under the tree key {x}"
        if sorted(reached) != sorted(stored):
            return f"tree {r} reaches {sorted(reached)} instead of {sorted(stored)}"
    if seen != tree_keys:
        return f"unreferenced tree nodes {sorted(tree_keys - seen)}"
    want_trees = opts.get("n_trees")
    if len(stored) > (cap if cap is not None else 10 ** 9):
        if want_trees is not None and len(roots) != want_trees:
            return f"{len(roots)} trees after the build, {want_trees} were requested"
        if want_trees is None and len(roots) < 1:
            return "no tree although the index does not fit one bucket"
    return None


def state_signature(kv):
    """canonical text of a database state (distinct final states are extended, not distinct paths)"""
    parts = []
    for k in sorted(kv):
        v = kv[k]
        if isinstance(v, Agg) and v.kind == "Node":
            if W.node_kind(v) == W.BUCKET:
                parts.append((k, "B", z3.simplify(v.f[0].f[0].f[0]).as_long()))
            else:
                sp = v.f[0]
                zero = str(z3.simplify(sp.f[2].f[0].data["zero"])) if isinstance(sp.f[2].f[0], Opaque) else "?"
                parts.append((k, "S", tuple((z3.simplify(c.f[0].disc).as_long(), z3.simplify(c.f[1]).as_long())
                                            for c in (sp.f[0], sp.f[1])), zero not in ("False",)))
        elif isinstance(v, Agg) and v.kind == "Metadata":
            parts.append((k, "M", z3.simplify(v.f[1]).as_long(), tuple(z3.simplify(x).as_long() for x in v.f[2].f["ids"])))
        else:
            parts.append((k, "x"))
    return tuple(parts)


def options_value(opts):
    def o(v):
        return Agg("Option", BV(1, 64), {0: BV(v, 64)}) if v is not None else Agg("Option", BV(0, 64), {})
    return Agg("BuildOption", None, {0: o(opts.get("n_trees")), 1: o(opts.get("split_after")), 2: o(None),
                                     3: Opaque("cancel"), 4: Opaque("progress")})


def apply_ops(kv, index, adds, dels):
    for i in adds:
        kv[(index, ITEM, i)] = Opaque("leaf", {"id": i})
        kv[(index, UPD, i)] = Agg("unit")
    for i in dels:
        if (index, ITEM, i) in kv:
            del kv[(index, ITEM, i)]
            kv[(index, UPD, i)] = Agg("unit")


def run_history(ctx, rounds, dim, deadline, state_budget=60, cancel=False, db_faults=False):
    """rounds: list of dicts(adds=[..], dels=[..], n_trees=, split_after=)"""
    res = {"paths": 0, "violations": [], "unknown": [], "shapes": [], "queries": 0, "solver_s": 0.0, "encoded": set()}
    fn = [f for n, f in ctx.fns.items() if re.search(r"writer::.*::build$", n) and "&Writer<D>" in f.header][0]
    neighbours = {(IDX - 1, ITEM, 1): Opaque("leaf", {"id": "n1"}), (IDX - 1, TREE, 0): Opaque("tree", {"id": "n"}),
                  (IDX + 1, META, 0): Opaque("metadata", {"of": IDX + 1}), (IDX + 1, UPD, 2): Agg("unit")}
    states = [dict(neighbours)]
    items = set()
    for rno, rd in enumerate(rounds):
        items |= set(rd.get("adds", []))
        items -= set(rd.get("dels", []))
        opts = {"n_trees": rd.get("n_trees"), "split_after": rd.get("split_after")}
        next_states = []
        seen_sigs = set()
        n_paths = 0
        truncated = False
        for kv0 in states[:state_budget]:
            if time.time() > deadline:
                truncated = True
                break
            kv = {k: v for k, v in kv0.items()}
            apply_ops(kv, IDX, rd.get("adds", []), rd.get("dels", []))
            eng = E.Engine(ctx.fns, ctx.structs, ctx.enums, build_models(opts) + e2_metric.kv_models("f32", "f32", True) +
                           list(M.REGISTRY), INLINE, max_depth=6, max_steps=60000)
            _install_par(eng)
            env = {"kv": kv, "log": [], "tmp": {"puts": [], "deleted": [], "remap": []}, "sides": []}
            if rd.get("sides"):
                env["fixed_sides"] = rd["sides"]
            pc = []
            if cancel:
                env["cancel_from"] = z3.BitVec("cancel_from_poll", 32)
                pc = [z3.UGE(env["cancel_from"], 1)]
            if db_faults:
                env["db_fault_at"] = z3.BitVec("db_fault_at_write", 32)
                pc = pc + [z3.UGE(env["db_fault_at"], 1)]
            writer = Agg("Writer", None, {0: Opaque("Database"), 1: BV(IDX, 16), 2: BV(dim, 64), 3: Agg("Option", BV(0, 64), {})})
            finals = eng.run(fn, [Ref(Cell(writer)), Ref(Cell(Opaque("RwTxn"))), Ref(Cell(Opaque("rng"))),
                                  Ref(Cell(options_value(opts)))], env=env, pc=pc, deadline=deadline, max_paths=40000)
            res["queries"] += eng.queries
            res["solver_s"] += eng.solver_s
            res["encoded"] |= set(E.short(n) for n in eng.encoded)
            label = f"round {rno + 1} ({rd})"
            for f in finals:
                if time.time() > deadline + 300:
                    res["unknown"].append("post-processing of the enumerated paths: engine deadline reached")
                    break
                n_paths += 1
                res["paths"] += 1

                def viol(clause):
                    res["violations"].append({"shape": f"round {rno + 1}", "clause": clause, "pre": None,
                                              "values": {"rounds": rounds[:rno + 1], "dim": dim, "cancel": cancel,
                                                         "db_faults": db_faults}})
                if f.status in ("unknown", "unwind"):
                    res["unknown"].append(f"{label}: {f.status}: {f.info}")
                    continue
                if f.status == "panic":
                    viol("build panics: " + f.info)
                    continue
                rv = f.value
                if not z3.is_true(z3.simplify(rv.disc == BV(0, 64))):
                    bad = e2_tree.error_violation(eng, f, rv, cancel or db_faults)
                    if bad:
                        viol("build " + bad)
                    continue
                if f.env.get("injected"):
                    if eng.check(f.pc)[0]:
                        viol("build returns Ok although a database write failed (MDB_MAP_FULL injected at write "
                             f"{f.env.get('writes')} or earlier)")
                    continue
                kv1 = f.env["kv"]
                for k, v in neighbours.items():
                    if kv1.get(k) is None or (getattr(kv1.get(k), "data", None) != getattr(v, "data", None)):
                        viol(f"entry {k} of another index was modified by the build")
                        break
                why = check_database(kv1, IDX, items, opts)
                if why:
                    viol(why)
                else:
                    sig = state_signature(kv1)
                    if sig not in seen_sigs:
                        seen_sigs.add(sig)
                        next_states.append(kv1)
        res["shapes"].append({"shape": f"round {rno + 1}: {rd}", "paths": n_paths, "ok_paths": len(next_states),
                              "states_in": len(states), "states_explored": min(len(states), state_budget),
                              "truncated": truncated or len(states) > state_budget})
        states = next_states
        if not states:
            break
    res["encoded"] = sorted(res["encoded"])
    res["solver_s"] = round(res["solver_s"], 2)
    return res


def _install_par(eng):
    """engine hook: ParCall outcome = run the closure, store its value into a cell, then re-enter the
    collect model (sequential rayon)."""
    orig_call = eng.call

    def call(st, fr, head, ret_bb):
        return orig_call(st, fr, head, ret_bb)
    eng.call = call


HISTORIES = {
    "quick": [
        (2, [dict(adds=[0, 1], split_after=1, n_trees=1), dict(adds=[3], dels=[1], split_after=1, n_trees=1),
             dict(adds=[2], dels=[0], split_after=1, n_trees=1)]),
        (2, [dict(adds=[0, 1], n_trees=None), dict(adds=[7], n_trees=None)]),
        # more trees requested than there are items
        # (side answers fixed by id parity for this one, so that the three trees do not cube the paths)
        (2, [dict(adds=[0, 1], split_after=1, n_trees=3, sides="parity")]),
        # a longer two-tree history under the same restriction (random fallback on the all-even bucket)
        (2, [dict(adds=[0, 1, 2, 3], split_after=2, n_trees=2, sides="parity"),
             dict(adds=[4, 5], dels=[1], split_after=2, n_trees=2, sides="parity"),
             dict(dels=[0, 3], split_after=2, n_trees=1, sides="parity")]),
    ],
    "thorough": [
        (2, [dict(adds=[0, 1], split_after=1, n_trees=2), dict(adds=[2], split_after=1, n_trees=2),
             dict(dels=[0, 2], split_after=1, n_trees=1)]),
        (2, [dict(adds=[0, 1], split_after=1, n_trees=1), dict(adds=[3], dels=[1], split_after=1, n_trees=1),
             dict(adds=[5, 6], split_after=1, n_trees=1)]),
        (2, [dict(adds=[0, 1, 2], split_after=2, n_trees=2), dict(adds=[3, 4], split_after=2, n_trees=2),
             dict(dels=[0, 4], split_after=2, n_trees=1)]),
    ],
}


def run_all(ctx, tier, cancel, deadline, db_faults=False):
    total = None
    hs = HISTORIES["quick"] + (HISTORIES["thorough"] if tier == "thorough" else [])
    if cancel or db_faults:
        # the cancel / fault point multiplies the paths: single-tree histories only (tree builds are independent,
        # so two trees square the path count)
        hs = [h for h in hs if all((rd.get("n_trees") or 1) == 1 or rd.get("sides") for rd in h[1])]
    for dim, rounds in hs:
        r = run_history(ctx, rounds, dim, deadline, state_budget=10 if tier == "quick" else 40, cancel=cancel,
                        db_faults=db_faults)
        if total is None:
            total = r
        else:
            for k in ("paths", "queries"):
                total[k] += r[k]
            total["solver_s"] = round(total["solver_s"] + r["solver_s"], 2)
            for k in ("violations", "unknown", "shapes"):
                total[k] += r[k]
            total["encoded"] = sorted(set(total["encoded"]) | set(r["encoded"]))
    return total


def history_scenario(v):
    """Through-API replay of a history (Euclidean, real LMDB): the same rounds with vectors on a line;
    side decisions are whatever the real metric computes, so several seeds are tried."""
    vals = v["values"]
    if vals.get("db_faults"):
        return "mapfull_sweep\n"
    out = []
    cancel = vals.get("cancel")
    variants = [(seed, None) for seed in range(6)] if not cancel else [(0, n) for n in range(1, 120)]
    for seed, cancel_from in variants:
        out.append(f"=== seed {seed} cancel_from {cancel_from}")
        out.append(f"dim {vals.get('dim', 2)}")
        for rd in vals["rounds"]:
            for i in rd.get("adds", []):
                out.append(f"add {i} " + ",".join([f"{float(i)}"] + ["0.5"] * (vals.get("dim", 2) - 1)))
            for i in rd.get("dels", []):
                out.append(f"del {i}")
            nt = rd.get("n_trees")
            sa = rd.get("split_after")
            last = rd is vals["rounds"][-1]
            out.append(f"build n_trees={nt if nt is not None else 'auto'} split_after={sa if sa is not None else 'none'} seed={seed}"
                       + (f" cancel_from={cancel_from}" if (cancel_from is not None and last) else ""))
            out.append("expect_valid")
            if sa is not None:
                out.append(f"expect_buckets_within {sa}")
            stored_now = set()
            for r2 in vals["rounds"][:vals["rounds"].index(rd) + 1]:
                stored_now |= set(r2.get("adds", []))
                stored_now -= set(r2.get("dels", []))
            if nt is not None and sa is not None and len(stored_now) > sa and not (cancel_from is not None and last):
                out.append(f"expect_n_trees {nt}")
    return "\n".join(out) + "\n"


def obligation(o, tier, seed):
    import e2
    import native
    from driver import Outcome
    try:
        ctx = e2.context(True)
    except RuntimeError as e:
        return [Outcome(o["id"], "mirsym", "inconclusive", str(e))]
    total = run_all(ctx, tier, bool(o.get("cancel")), time.time() + (1200 if tier == "quick" else 3300),
                    db_faults=bool(o.get("db_faults")))
    return e2_tree.outcomes_from(o, total, "history", native, e2, Outcome)
