"""Engine E2 glue: MIR context shared by the obligations of one check run, outcome helpers."""
import json
import os
import time

from common import REPO, VERIF, Scratch, log
from mirsym import mir

_CTX = {}


class MirContext:
    def __init__(self, overflow_checks=True):
        self.scratch = Scratch("mir")
        t0 = time.time()
        try:
            # logging is modelled by no-op macros (the expansion of tracing's macros is not the
            # subject of any property and would only add unmodelled callees to the MIR)
            self.scratch.use_models(names=("tracing",))
            self.cuts = list(self.scratch.cuts)
            path = os.path.join(self.scratch.dir, "arroy.mir")
            import subprocess
            cmd = ["cargo", "+nightly", "rustc", "--offline", "--lib", "--target-dir",
                   os.path.join(self.scratch.dir, "target-mir"), "--", "-Zunpretty=mir",
                   "-C", "debug-assertions=off", "-C", "overflow-checks=" + ("on" if overflow_checks else "off")]
            with open(path, "w") as f:
                p = subprocess.run(cmd, cwd=self.scratch.repo, stdout=f, stderr=subprocess.PIPE, text=True,
                                   env={**os.environ, "CARGO_NET_OFFLINE": "true"}, timeout=900)
            if p.returncode != 0 or os.path.getsize(path) < 1000:
                errs = [l for l in p.stderr.splitlines() if l.startswith("error")][:5]
                raise RuntimeError("MIR dump failed: " + " | ".join(errs))
            if os.environ.get("VERIF_MIR_COPY"):
                import shutil
                shutil.copy(path, os.environ["VERIF_MIR_COPY"])
            self.fns = mir.parse_mir(path)
            self.structs, self.enums = mir.parse_layouts(os.path.join(self.scratch.repo, "src"))
            sp = os.path.join(self.scratch.repo, "src", "spaces", "simple.rs")
            self.simple_rs = open(sp).read() if os.path.exists(sp) else ""
            self.dump_s = time.time() - t0
            self.n_fns = len(self.fns)
        finally:
            self.scratch.close()


def context(overflow_checks=True):
    key = ("mir", overflow_checks)
    if key not in _CTX:
        _CTX[key] = MirContext(overflow_checks)
    return _CTX[key]


def save_replay(prop, oid, payload):
    d = os.path.join(os.environ.get("VERIF_REPLAY_DIR") or os.path.join(VERIF, "replays"), prop)
    os.makedirs(d, exist_ok=True)
    p = os.path.join(d, oid + ".json")
    with open(p, "w") as f:
        json.dump(payload, f, indent=1, default=str)
    return p
