"""E2 W-obligation on Writer::prepare_changing_distance (C18, C07): executed from its MIR over a
constant-shape key-value database (concrete keys, abstract values).  Vectors are abstracted to
(codec, logical length): `to_vec` yields as many floats as the source codec decodes (64 per word for
the quantised codec), `from_vec` stores what it is given, `truncate` cuts.  The oracle asks that
every re-encoded leaf is a valid leaf of the *new* metric at the declared dimension."""
import re
import time

import z3

from mirsym import engine as E
from mirsym import models as M
from mirsym import world as W  # noqa: F401
from mirsym.engine import BV, Agg, Cell, FnItem, Opaque, Ref, PANIC
from mirsym.mir import find_fn
from mirsym.models import fork_on, mk_err, mk_ok, mk_option, one, unit

import e2_tree

META, UPD, TREE, ITEM = 0, 1, 2, 3
IDX = 7

INLINE = e2_tree.INLINE + [
    (re.compile(r"^Writer::<D>::is_empty$"), r"writer::.*::is_empty$"),
    (re.compile(r"^Writer::<D>::iter$"), r"writer::.*::iter$"),
    (re.compile(r"^<ItemIter<'_, D> as Iterator>::next$"), r"item_iter::.*::next$"),
    (re.compile(r"^Writer::<D>::need_build$"), r"writer::.*::need_build$"),
    (re.compile(r"^clear_tree_nodes::<D>$"), r"^clear_tree_nodes$"),
    (re.compile(r"^key::Prefix::(item|tree|updated|all)$"), r"key::<impl at [^>]*>::{name}$", "-> key::Prefix"),
    (re.compile(r"^Key::metadata$"), r"key::.*::metadata$", "-> Key"),
    (re.compile(r"^NodeId::metadata$"), r"node_id::.*::metadata$"),
    (re.compile(r"^item_leaf::<D>$"), r"^item_leaf$"),
    (re.compile(r"^Key::(item|tree|updated|version)$"), r"key::.*::{name}$", "-> Key"),
    (re.compile(r"^NodeId::(item|tree|updated|version)$"), r"node_id::.*::{name}$"),
]


def words(n):
    """ceil(n / 64) for a 64-bit term"""
    return z3.UDiv(n + 63, BV(64, 64))


_UID = [0]


def vec_value(codec, stored):
    """stored = number of f32 (codec f32) or of 64-bit words (codec bq); uid tells vectors apart"""
    _UID[0] += 1
    return Opaque("vector", {"codec": codec, "stored": stored, "uid": _UID[0]})


def same(a, b):
    """structural equality of two world values (object identity does not survive a path fork, which
    deep-copies the environment)"""
    if a is b:
        return True
    if z3.is_expr(a) and z3.is_expr(b):
        return a.eq(b) or z3.is_true(z3.simplify(a == b)) if a.sort() == b.sort() else False
    if type(a) is not type(b):
        return False
    if isinstance(a, Opaque):
        return a.tag == b.tag and same(a.data, b.data)
    if isinstance(a, Agg):
        return a.kind == b.kind and same(a.disc, b.disc) and set(a.f) == set(b.f) and all(same(a.f[k], b.f[k]) for k in a.f)
    if isinstance(a, dict):
        return set(a) == set(b) and all(same(a[k], b[k]) for k in a)
    if isinstance(a, (list, tuple)):
        return len(a) == len(b) and all(same(x, y) for x, y in zip(a, b))
    if isinstance(a, (Ref, Cell)):
        return False
    return a == b


def leaf_node(codec, stored, metric):
    return Agg("Node", BV(0, 64), {0: Agg("Leaf", None, {0: Opaque("header", {"metric": metric}),
                                                          1: Agg("Cow", BV(1, 64), {0: vec_value(codec, stored)})})})


def tree_node(tag):
    """a bucket node of the forest (payload opaque)"""
    return Agg("Node", BV(1, 64), {0: Agg("Descendants", None, {0: Opaque("bitmap", {"id": tag})})})


def key_agg(k):
    idx, mode, ident = k
    return Agg("Key", None, {0: BV(idx, 16), 1: W.node_id(mode, BV(ident, 32)), 2: BV(0, 8)})


def concrete_key(eng, keyref):
    key = eng.deref(keyref)
    while isinstance(key, Ref):
        key = eng.deref(key)
    if not (isinstance(key, Agg) and isinstance(key.f.get(1), Agg)):
        raise E.Unknown("key value of unexpected shape: " + repr(key)[:60])
    out = []
    for t in (key.f[0], key.f[1].f[0].disc, key.f[1].f[1]):
        if isinstance(t, int):
            out.append(t)
            continue
        if not z3.is_expr(t):
            raise E.Unknown("key component of unexpected kind: " + repr(t)[:60])
        t = z3.simplify(t)
        if not z3.is_bv_value(t):
            raise E.Unknown("symbolic key in the key-value world")
        out.append(t.as_long())
    return tuple(out)


def new_cursor(st):
    """cursor positions live in the environment (keyed by a cursor id) so that they survive forks
    and chained engine runs"""
    cs = st.env.setdefault("cursors", {})
    cid = len(cs)
    cs[cid] = None
    return cid


def kv_models(src_codec, dst_codec, same_metric):
    ms = []

    def reg(pat):
        def deco(f):
            ms.append((re.compile(pat), f))
            return f
        return deco

    @reg(r"^TypeId::of::<(ND|D)>$")
    def _(eng, st, callee, a, ty):
        which = "ND" if "<ND>" in callee else "D"
        return one(BV(1 if (which == "D" or same_metric) else 2, 64))

    @reg(r"^<TypeId as PartialEq>::(ne|eq)$")
    def _(eng, st, callee, a, ty):
        x, y = eng.deref(a[0]), eng.deref(a[1])
        return one((x != y) if callee.endswith("ne") else (x == y))

    @reg(r"^heed::Database::<.*>::(remap_key_type|remap_types|remap_data_type)::<")
    def _(eng, st, callee, a, ty):
        return one(Opaque("Database"))

    @reg(r"^R[ow](Prefix|Range)::<.*>::(remap_key_type|remap_types|remap_data_type)::<")
    def _(eng, st, callee, a, ty):
        return one(a[0])

    @reg(r"^heed::Database::<.*>::delete::<")
    def _(eng, st, callee, a, ty):
        k = concrete_key(eng, a[2])
        existed = k in st.env["kv"]
        st.env["kv"].pop(k, None)
        st.env["log"].append(("delete", k))
        return one(mk_ok(z3.BoolVal(existed)))

    @reg(r"^heed::Database::<.*>::range(_mut)?::<")
    def _(eng, st, callee, a, ty):
        r = eng.deref(a[2])
        top = (0xFFFF, 0xFF, 0xFFFFFFFF)
        if r.kind == "Range":
            lo, hi, inc = concrete_key(eng, Ref(Cell(r.f[0]))), concrete_key(eng, Ref(Cell(r.f[1]))), False
        elif r.kind == "RangeInclusive":
            lo, hi, inc = concrete_key(eng, Ref(Cell(r.f[0]))), concrete_key(eng, Ref(Cell(r.f[1]))), True
        elif r.kind == "RangeFrom":
            lo, hi, inc = concrete_key(eng, Ref(Cell(r.f[0]))), top, True
        elif r.kind == "RangeTo":
            lo, hi, inc = (0, 0, 0), concrete_key(eng, Ref(Cell(r.f[0]))), False
        elif r.kind == "RangeToInclusive":
            lo, hi, inc = (0, 0, 0), concrete_key(eng, Ref(Cell(r.f[0]))), True
        elif r.kind == "RangeFull":
            lo, hi, inc = (0, 0, 0), top, True
        else:
            raise E.Unknown("range bounds of kind " + r.kind)
        return one(mk_ok(Opaque("Cursor", {"index": None, "mode": None, "id": new_cursor(st), "lo": lo, "hi": hi, "inc": inc})))

    @reg(r"^RangeInclusive::<Key>::new$")
    def _(eng, st, callee, a, ty):
        return one(Agg("RangeInclusive", None, {0: a[0], 1: a[1]}))

    @reg(r"^(?:std::result::)?Result::<.*>::map::<.*\{closure@")
    def _(eng, st, callee, a, ty):
        r, f = a
        if z3.is_true(z3.simplify(r.disc == BV(0, 64))):
            from mirsym.models import call_fn_item
            v = call_fn_item(eng, f, [r.f[0]])
            if type(v).__name__ == "PushCall":
                # the closure's result must be wrapped in Ok: run it through a tiny continuation
                st.env["wrap_ok"] = True
            return one(WrapOk(v) if type(v).__name__ == "PushCall" else mk_ok(v))
        return one(r)

    @reg(r"^heed::Database::<.*>::get_(greater|lower)_than(_or_equal_to)?::<")
    def _(eng, st, callee, a, ty):
        k = concrete_key(eng, a[2])
        name = callee.split("::<")[-2].split("::")[-1] if "::<" in callee else callee
        greater, eq = "get_greater" in callee, "_or_equal_to" in callee
        keys = sorted(st.env["kv"])
        if greater:
            c = [x for x in keys if x > k or (eq and x == k)]
            hit = c[0] if c else None
        else:
            c = [x for x in keys if x < k or (eq and x == k)]
            hit = c[-1] if c else None
        st.env["log"].append(("seek", k, hit))
        if hit is None:
            return one(mk_ok(mk_option()))
        return one(mk_ok(mk_option(Agg("tuple", None, {0: key_agg(hit), 1: st.env["kv"][hit]}))))

    @reg(r"^heed::Database::<.*>::prefix_iter(_mut)?::<")
    def _(eng, st, callee, a, ty):
        p = eng.deref(a[2])
        idx = z3.simplify(p.f[0])
        mode = p.f[1]
        if not z3.is_bv_value(idx):
            raise E.Unknown("symbolic prefix")
        m = None
        if z3.is_true(z3.simplify(mode.disc == BV(1, 64))):
            m = z3.simplify(mode.f[0].disc).as_long()
        cur = Opaque("Cursor", {"index": idx.as_long(), "mode": m, "id": new_cursor(st)})
        return one(mk_ok(cur))

    @reg(r"^<R[ow](Prefix|Range)<'_, .*> as Iterator>::next$")
    def _(eng, st, callee, a, ty):
        c = eng.deref(a[0])
        if isinstance(c, Agg):          # ItemIter { inner, .. }
            c = [x for x in c.f.values() if isinstance(x, Opaque) and x.tag == "Cursor"][0]
        d = c.data
        pos = st.env["cursors"][d["id"]]
        if "lo" in d:
            keys = sorted(k for k in st.env["kv"] if k >= d["lo"] and (k <= d["hi"] if d["inc"] else k < d["hi"])
                          and (pos is None or k > pos))
        else:
            keys = sorted(k for k in st.env["kv"] if k[0] == d["index"] and (d["mode"] is None or k[1] == d["mode"])
                          and (pos is None or k > pos))
        if not keys:
            return one(mk_option())
        k = keys[0]
        st.env["cursors"][d["id"]] = k
        val = st.env["kv"][k]
        pair = Agg("tuple", None, {0: key_agg(k), 1: val})
        return one(mk_option(mk_ok(pair)))

    @reg(r"^Option::<std::result::Result<.*>>::transpose$")
    def _(eng, st, callee, a, ty):
        o = a[0]
        if z3.is_true(z3.simplify(o.disc == BV(0, 64))):
            return one(mk_ok(mk_option()))
        r = o.f[0]
        if z3.is_true(z3.simplify(r.disc == BV(0, 64))):
            return one(mk_ok(mk_option(r.f[0])))
        return one(mk_err(r.f[0]))

    @reg(r"^Rw(Prefix|Range)::<.*>::del_current(::<.*>)?$")
    def _(eng, st, callee, a, ty):
        pos = st.env["cursors"][eng.deref(a[0]).data["id"]]
        if pos is None or pos not in st.env["kv"]:
            return one(mk_ok(z3.BoolVal(False)))
        if st.env.get("db_fault_at") is not None:
            import e2_build

            def effect(s2):
                del s2.env["kv"][pos]
                s2.env["log"].append(("del_current", pos))
            return e2_build.faulty_write(eng, st, effect, lambda _: z3.BoolVal(True))
        del st.env["kv"][pos]
        st.env["log"].append(("del_current", pos))
        return one(mk_ok(z3.BoolVal(True)))

    @reg(r"^Rw(Prefix|Range)::<.*>::put_current_with_options::<|^Rw(Prefix|Range)::<.*>::put_current(::<.*>)?$")
    def _(eng, st, callee, a, ty):
        c = eng.deref(a[0]).data
        kref, vref = (a[2], a[3]) if "with_options" in callee else (a[1], a[2])
        k = concrete_key(eng, kref)
        if st.env["cursors"][c["id"]] != k:
            return one(mk_err(Agg("heed::Error", BV(1, 64), {0: Opaque("mdb")})))
        st.env["kv"][k] = W.snap(eng, vref)
        st.env["log"].append(("put_current", k))
        return one(mk_ok(unit()))

    @reg(r"lmdb_flags::_::<impl PutFlags>::empty$")
    def _(eng, st, callee, a, ty):
        return one(Opaque("PutFlags"))

    # ---- vectors
    @reg(r"^<Cow<'_, UnalignedVector<.*>> as Deref>::deref$")
    def _(eng, st, callee, a, ty):
        cow = eng.deref(a[0])
        return one(Ref(Cell(cow.f[0])))

    @reg(r"^UnalignedVector::<<D as Distance>::VectorCodec>::to_vec$")
    def _(eng, st, callee, a, ty):
        v = eng.deref(a[0])
        n = v.data["stored"] if v.data["codec"] == "f32" else v.data["stored"] * 64
        return one(Agg("VecF32", None, {"len": n}))

    @reg(r"^UnalignedVector::<<ND as Distance>::VectorCodec>::from_vec$")
    def _(eng, st, callee, a, ty):
        n = a[0].f["len"]
        stored = n if dst_codec == "f32" else words(n)
        return one(Agg("Cow", BV(1, 64), {0: vec_value(dst_codec, stored)}))

    @reg(r"^UnalignedVector::<<ND as Distance>::VectorCodec>::from_slice$")
    def _(eng, st, callee, a, ty):
        v = eng.deref(a[0])
        n = v.f["len"] if isinstance(v, Agg) else v.data["len"]
        stored = n if dst_codec == "f32" else words(n)
        return one(Agg("Cow", BV(1, 64), {0: vec_value(dst_codec, stored)}))

    @reg(r"^Vec::<f32>::truncate$")
    def _(eng, st, callee, a, ty):
        v = eng.deref(a[0])
        v.f["len"] = z3.If(z3.ULT(a[1], v.f["len"]), a[1], v.f["len"])
        return one(unit())

    @reg(r"^Vec::<f32>::len$")
    def _(eng, st, callee, a, ty):
        return one(eng.deref(a[0]).f["len"])

    @reg(r"^<Vec<f32> as Deref>::deref$|^Vec::<f32>::as_slice$|^<Vec<f32> as Index<RangeTo<usize>>>::index$")
    def _(eng, st, callee, a, ty):
        if "RangeTo" in callee:
            v = eng.deref(a[0])
            end = a[1].f[0]
            out = []
            for s2, oob in fork_on(eng, st, z3.UGT(end, v.f["len"])):
                out.append((PANIC if oob else Ref(Cell(Agg("VecF32", None, {"len": end}))), None, s2))
            return out
        return one(a[0])

    # ---- plain get / put (rewrites of the cursor loops use them)
    @reg(r"^heed::Database::<.*>::get::<")
    def _(eng, st, callee, a, ty):
        k = concrete_key(eng, a[2])
        st.env["log"].append(("get", k))
        v = st.env["kv"].get(k)
        return one(mk_ok(mk_option(v) if v is not None else mk_option()))

    @reg(r"^heed::Database::<.*>::put::<")
    def _(eng, st, callee, a, ty):
        k = concrete_key(eng, a[2])
        st.env["kv"][k] = W.snap(eng, a[3])
        st.env["log"].append(("put", k))
        return one(mk_ok(unit()))

    @reg(r"^RoaringBitmap::new$")
    def _(eng, st, callee, a, ty):
        return one(BV(0, M.U))

    @reg(r"^<ND as Distance>::new_header$")
    def _(eng, st, callee, a, ty):
        v = eng.deref(a[0])
        while isinstance(v, Ref):
            v = eng.deref(v)
        if isinstance(v, Agg) and v.kind == "Cow":
            v = v.f[0]
        of = v.data.get("stored") if isinstance(v, Opaque) and isinstance(v.data, dict) else None
        return one(Opaque("header", {"metric": "ND", "of_stored": of}))

    return ms


class WrapOk:
    """marker: a PushCall whose return value must be wrapped into Result::Ok"""

    def __init__(self, push):
        self.push = push


def database(dim, src_codec, with_items=True):
    stored = dim if src_codec == "f32" else words(dim)
    kv = {
        # the last build saw item 1 only: items 5 and u32::MAX are pending additions
        (IDX, META, 0): Agg("Metadata", None, {0: BV(0, 32), 1: BV(1 << 1, M.U), 2: Opaque("roots"),
                                               3: Opaque("str", {"s": "old metric"})}),
        (IDX, META, 1): Opaque("version", {"of": IDX}),
        (IDX, UPD, 5): Opaque("mark"),
        (IDX, UPD, 0xFFFFFFFF): Opaque("mark"),
        (IDX, TREE, 0): tree_node(0),
        (IDX, TREE, 4): tree_node(4),
        (IDX, ITEM, 1): leaf_node(src_codec, stored, "D"),
        (IDX, ITEM, 5): leaf_node(src_codec, stored, "D"),
        (IDX, ITEM, 0xFFFFFFFF): leaf_node(src_codec, stored, "D"),
        (IDX - 1, META, 0): Opaque("metadata", {"of": IDX - 1}),
        (IDX - 1, TREE, 0): tree_node("n0"),
        (IDX - 1, ITEM, 1): leaf_node(src_codec, stored, "D"),
        (IDX + 1, TREE, 0): tree_node("n2"),
        (IDX + 1, ITEM, 3): leaf_node(src_codec, stored, "D"),
    }
    if not with_items:
        kv = {k: v for k, v in kv.items() if not (k[0] == IDX and k[1] == ITEM)}
    return kv


def run_change(ctx, src_codec, dst_codec, same_metric, deadline, with_items=True):
    res = {"paths": 0, "violations": [], "unknown": [], "shapes": []}
    eng = E.Engine(ctx.fns, ctx.structs, ctx.enums, kv_models(src_codec, dst_codec, same_metric) + list(M.REGISTRY),
                   INLINE, max_depth=3, max_steps=3000)
    fn = find_fn(ctx.fns, r"writer::.*::prepare_changing_distance$")
    dim = z3.BitVec("dimensions", 64)
    pc = [z3.UGE(dim, 1), z3.ULE(dim, 130)]
    kv = database(dim, src_codec, with_items)
    before = dict(kv)
    writer = Agg("Writer", None, {0: Opaque("Database"), 1: BV(IDX, 16), 2: dim, 3: Agg("Option", BV(0, 64), {})})
    finals = eng.run(fn, [writer, Ref(Cell(Opaque("RwTxn")))], env={"kv": kv, "log": []}, pc=pc, deadline=deadline)
    label = f"{src_codec}->{dst_codec}" + (" (same metric)" if same_metric else "") + ("" if with_items else " (index without items)")
    for f in finals:
        res["paths"] += 1

        def viol(clause, m):
            res["violations"].append({"shape": label, "clause": clause, "pre": None,
                                      "values": {"dimensions": m.eval(dim, model_completion=True).as_long(),
                                                 "from": src_codec, "to": dst_codec}})
        if f.status in ("unknown", "unwind"):
            res["unknown"].append(f"{label}: {f.status}: {f.info}")
            continue
        if f.status == "panic":
            ok, m = eng.check(f.pc)
            if ok:
                viol("panics: " + f.info, m)
            continue
        rv = f.value
        if not z3.is_true(z3.simplify(rv.disc == BV(0, 64))):
            ok, m = eng.check(f.pc)
            if ok:
                viol("returns Err on a healthy database", m)
            continue
        after = f.env["kv"]
        w2 = rv.f[0]
        problems = []
        if not (z3.is_true(z3.simplify(w2.f[1] == BV(IDX, 16))) and z3.is_true(z3.simplify(w2.f[2] == dim))):
            problems.append("the returned writer has another index or dimension")
        if same_metric:
            if set(after) != set(before) or any(not same(after[k], before[k]) for k in before) or f.env["log"]:
                problems.append("asking for the same metric modified the database")
        else:
            for k in before:
                if k[0] != IDX and (k not in after or not same(after[k], before[k])):
                    problems.append(f"entry {k} of another index was modified")
            for k in after:
                if k not in before:
                    problems.append(f"a new key {k} appeared")
            if (IDX, META, 0) in after:
                problems.append("the metadata of the old metric is still there (the index would open without a build)")
            if any(k[0] == IDX and k[1] == TREE for k in after):
                problems.append("tree nodes of the old forest are left behind")
            for k in before:
                if k[0] == IDX and k[1] == ITEM and k not in after:
                    problems.append(f"item {k[2]} was lost")
                if k[0] == IDX and k[1] == UPD and k not in after:
                    problems.append("a pending updated mark was dropped")
        if problems:
            ok, m = eng.check(f.pc)
            if ok:
                viol(problems[0], m)
            continue
        if not same_metric:
            for k, v in after.items():
                if k[0] == IDX and k[1] == ITEM:
                    try:
                        leaf = v.f[0]
                        vec = leaf.f[1].f[0]
                        hdr = leaf.f[0]
                        codec, stored = vec.data["codec"], vec.data["stored"]
                    except Exception:
                        res["unknown"].append(f"{label}: unexpected leaf value for item {k[2]}")
                        continue
                    if hdr.data.get("metric") != "ND" or codec != dst_codec:
                        ok, m = eng.check(f.pc)
                        if ok:
                            viol(f"item {k[2]}: the leaf was not re-encoded for the new metric", m)
                        continue
                    want = dim if dst_codec == "f32" else words(dim)
                    of = hdr.data.get("of_stored")
                    if of is None:
                        res["unknown"].append(f"{label}: the header of item {k[2]} was not computed from a vector")
                        continue
                    ok, m = eng.check(f.pc, of != want)
                    if ok:
                        viol(f"the header of the re-encoded leaf was computed from a vector of "
                             f"{m.eval(of, model_completion=True).as_long()} stored "
                             f"{'floats' if dst_codec == 'f32' else 'words'}, not from the vector at the declared dimension "
                             f"{m.eval(dim, model_completion=True).as_long()}", m)
                        break
                    ok, m = eng.check(f.pc, stored != want)
                    if ok:
                        viol(f"the re-encoded leaf does not have the declared dimension: it stores "
                             f"{m.eval(stored, model_completion=True).as_long()} "
                             f"{'floats' if dst_codec == 'f32' else 'words'} for dimension "
                             f"{m.eval(dim, model_completion=True).as_long()}", m)
                        break
    res["shapes"].append({"shape": label, "paths": len(finals), "ok_paths": len(finals)})
    res["queries"], res["solver_s"] = eng.queries, round(eng.solver_s, 2)
    res["encoded"] = sorted(E.short(n) for n in eng.encoded)
    return res


def run_iter(ctx, codec, side, deadline):
    """C05: `Writer::iter` / `Reader::iter` + `ItemIter::next` from MIR over the key-value world:
    exactly this index's items, ascending, each vector at the declared dimension."""
    res = {"paths": 0, "violations": [], "unknown": [], "shapes": []}
    eng = E.Engine(ctx.fns, ctx.structs, ctx.enums, kv_models(codec, codec, False) + list(M.REGISTRY),
                   INLINE, max_depth=3, max_steps=3000)
    label = f"{side}.iter() over {codec} leaves"
    dim = z3.BitVec("dimensions", 64)
    pc = [z3.UGE(dim, 1), z3.ULE(dim, 300)]
    kv = database(dim, codec, True)
    if side == "writer":
        fn = find_fn(ctx.fns, r"writer::.*::iter$")
        me = Agg("Writer", None, {0: Opaque("Database"), 1: BV(IDX, 16), 2: dim, 3: Agg("Option", BV(0, 64), {})})
    else:
        fn = find_fn(ctx.fns, r"reader::.*::iter$")
        me = Agg("Reader", None, {0: Opaque("Database"), 1: BV(IDX, 16), 2: Opaque("ItemIds"), 3: dim, 4: BV(0, 16)})
    nxt = find_fn(ctx.fns, r"item_iter::.*::next$")

    def viol(clause, m):
        res["violations"].append({"shape": label, "clause": clause, "pre": None,
                                  "values": {"dimensions": m.eval(dim, model_completion=True).as_long(), "codec": codec,
                                             "side": side}})

    def bad(f, what):
        if f.status in ("unknown", "unwind"):
            res["unknown"].append(f"{label}: {f.status}: {f.info}")
            return True
        if f.status == "panic":
            ok, m = eng.check(f.pc)
            if ok:
                viol(what + " panics: " + f.info, m)
            return True
        return False
    finals = eng.run(fn, [Ref(Cell(me)), Ref(Cell(Opaque("RoTxn")))], env={"kv": kv, "log": []}, pc=pc, deadline=deadline)
    for f in finals:
        res["paths"] += 1
        if bad(f, "iter"):
            continue
        if not z3.is_true(z3.simplify(f.value.disc == BV(0, 64))):
            ok, m = eng.check(f.pc)
            if ok:
                viol("iter returns Err on a healthy database", m)
            continue
        it = f.value.f[0]
        env, cur_pc = f.env, list(f.pc)
        want = sorted(k[2] for k in kv if k[0] == IDX and k[1] == ITEM)
        got = []
        stop = False
        for _ in range(len(want) + 2):
            sub = eng.run(nxt, [Ref(Cell(it))], env=env, pc=cur_pc, deadline=deadline)
            res["paths"] += len(sub)
            if len(sub) != 1:
                res["unknown"].append(f"{label}: next() forks into {len(sub)} paths")
                stop = True
                break
            g = sub[0]
            if bad(g, "next"):
                stop = True
                break
            env, cur_pc = g.env, list(g.pc)
            o = g.value
            if z3.is_true(z3.simplify(o.disc == BV(0, 64))):
                break
            r = o.f[0]
            if not z3.is_true(z3.simplify(r.disc == BV(0, 64))):
                ok, m = eng.check(cur_pc)
                if ok:
                    viol("next yields Err on a healthy database", m)
                stop = True
                break
            ident, vec = r.f[0].f[0], r.f[0].f[1]
            got.append(z3.simplify(ident).as_long())
            ok, m = eng.check(cur_pc, vec.f["len"] != dim)
            if ok:
                viol(f"the vector yielded for item {got[-1]} has "
                     f"{m.eval(vec.f['len'], model_completion=True).as_long()} components, the declared dimension is "
                     f"{m.eval(dim, model_completion=True).as_long()}", m)
                stop = True
                break
        if not stop and got != want:
            ok, m = eng.check(cur_pc)
            if ok:
                viol(f"iteration yields items {got}, stored are {want}", m)
    res["shapes"].append({"shape": label, "paths": res["paths"], "ok_paths": res["paths"]})
    res["queries"], res["solver_s"] = eng.queries, round(eng.solver_s, 2)
    res["encoded"] = sorted(E.short(n) for n in eng.encoded)
    return res


def iter_obligation(o, tier, seed):
    import e2
    import native
    from driver import Outcome
    try:
        ctx = e2.context(True)
    except RuntimeError as e:
        return [Outcome(o["id"], "mirsym", "inconclusive", str(e))]
    total = None
    for codec in ("f32", "bq"):
        for side in ("writer", "reader"):
            r = run_iter(ctx, codec, side, time.time() + 300)
            if total is None:
                total = r
            else:
                for k in ("paths", "queries"):
                    total[k] += r[k]
                total["solver_s"] = round(total["solver_s"] + r["solver_s"], 2)
                for k in ("violations", "unknown", "shapes"):
                    total[k] += r[k]
                total["encoded"] = sorted(set(total["encoded"]) | set(r["encoded"]))
    return e2_tree.outcomes_from(o, total, "iter", native, e2, Outcome)


def iter_scenario(v):
    vals = v["values"]
    metric = "bq_euclidean" if vals.get("codec") == "bq" else "euclidean"
    dim = max(1, int(vals.get("dimensions", 3)))
    return f"iter_items metric={metric} dim={dim} side={vals.get('side', 'writer')} items=1,2,4294967295\n"


def obligation(o, tier, seed):
    import e2
    import native
    from driver import Outcome
    try:
        ctx = e2.context(True)
    except RuntimeError as e:
        return [Outcome(o["id"], "mirsym", "inconclusive", str(e))]
    total = None
    for src, dst, same, items in (("f32", "f32", False, True), ("f32", "bq", False, True), ("bq", "f32", False, True),
                                  ("bq", "bq", False, True), ("f32", "f32", True, True), ("f32", "bq", False, False)):
        r = run_change(ctx, src, dst, same, time.time() + 300, items)
        if total is None:
            total = r
        else:
            for k in ("paths", "queries"):
                total[k] += r[k]
            total["solver_s"] = round(total["solver_s"] + r["solver_s"], 2)
            for k in ("violations", "unknown", "shapes"):
                total[k] += r[k]
            total["encoded"] = sorted(set(total["encoded"]) | set(r["encoded"]))
    return e2_tree.outcomes_from(o, total, "metric", native, e2, Outcome)


def metric_scenario(v):
    vals = v["values"]
    pair = {("f32", "f32"): ("euclidean", "cosine"), ("f32", "bq"): ("euclidean", "bq_euclidean"),
            ("bq", "f32"): ("bq_euclidean", "cosine"), ("bq", "bq"): ("bq_euclidean", "bq_cosine")}.get(
        (vals.get("from"), vals.get("to")))
    if pair is None:
        return None
    empty = 1 if "without items" in v["shape"] else 0
    dim = max(2, int(vals.get("dimensions", 3)))
    return f"change_metric from={pair[0]} to={pair[1]} dim={dim} items=1,2,3,4294967295 empty={empty}\n"
