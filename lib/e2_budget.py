"""E2 obligation for C03: the search budget computed by Reader::nns_by_leaf.

The first blocks of nns_by_leaf are executed from their MIR (dev profile, overflow checks on, and
release profile, overflow checks off) with count / search_k / oversampling / the number of roots /
DEFAULT_OVERSAMPLING symbolic over their whole range; execution stops where the traversal starts."""
import re
import time

import z3

from mirsym import engine as E
from mirsym import models as M
from mirsym.engine import BV, Agg, Opaque, Ref, Cell


def sat_mul(x, y):
    w = x.size()
    wide = z3.ZeroExt(w, x) * z3.ZeroExt(w, y)
    return z3.If(z3.UGT(wide, z3.ZeroExt(w, BV((1 << w) - 1, w))), BV((1 << w) - 1, w), z3.Extract(w - 1, 0, wide))


def run(fns, structs, enums, profile):
    """returns (status, detail dict)"""
    fn = E_find(fns, r"reader::.*::nns_by_leaf$")
    count = z3.BitVec("count", 64)
    nroots = z3.BitVec("n_roots", 64)
    sk_some, sk = z3.Bool("search_k_is_some"), z3.BitVec("search_k", 64)
    ov_some, ov = z3.Bool("oversampling_is_some"), z3.BitVec("oversampling", 64)
    items = z3.BitVec("items", M.U)
    dflt = z3.BitVec("DEFAULT_OVERSAMPLING", 64)
    pre = [sk != 0, ov != 0, items != 0, z3.ULE(nroots, BV(1 << 32, 64)), z3.UGE(dflt, 1), z3.ULE(dflt, 16)]

    def opt(some, v):
        return Agg("Option", z3.If(some, BV(1, 64), BV(0, 64)), {0: v})

    models = list(M.REGISTRY)

    def m_itemids_len(eng, st, callee, a, ty):
        return M.one(nroots)

    def m_stop(eng, st, callee, a, ty):
        fr = st.stack[-1]
        locs = fr.fn.debug.get("search_k", [])
        vals = [fr.loc.get(n) for n in locs]
        return M.one(E.BreakPoint("budget computed", vals))

    def m_heap_new(eng, st, callee, a, ty):
        return M.one(Opaque("BinaryHeap"))

    models = [(re.compile(r"^ItemIds::<'_>::len$"), m_itemids_len),
              (re.compile(r"^std::iter::repeat::<"), m_stop),
              (re.compile(r"^BinaryHeap::<.*>::with_capacity$"), m_heap_new)] + models
    eng = E.Engine(fns, structs, enums, models, inline=[], max_depth=3)
    reader = Agg("Reader", None, {0: Opaque("Database"), 1: z3.BitVec("index", 16), 2: Opaque("ItemIds"),
                                  3: z3.BitVec("dimensions", 64), 4: items})
    qb = Agg("QueryBuilder", None, {0: Opaque("reader"), 1: count, 2: opt(sk_some, sk), 3: opt(ov_some, ov),
                                    4: Agg("Option", BV(0, 64), {})})
    args = [Ref(Cell(reader)), Ref(Cell(Opaque("RoTxn"))), Ref(Cell(Opaque("Leaf"))), Ref(Cell(qb))]
    pre.append(M.satmul_axiom(count, nroots))
    finals = eng.run(fn, args, env={}, pc=pre)
    sm = M.satmul_uf(64)
    spec = sm(z3.If(sk_some, sk, sm(count, nroots)), z3.If(ov_some, ov, dflt))
    res = {"profile": profile, "paths": len(finals), "violations": [], "unknown": []}
    for f in finals:
        if f.status == "panic":
            okk, m = eng.check(f.pc)
            if okk:
                res["violations"].append({"clause": "budget computation panics", "info": f.info,
                                          "model": model_dict(m, [count, nroots, sk_some, sk, ov_some, ov, dflt])})
        elif f.status == "break":
            vals = [v for v in f.value if v is not None]
            if not vals:
                res["unknown"].append("search_k local not found")
                continue
            final = vals[-1]
            okk, m = eng.check(f.pc, final != spec)
            if okk:
                d = model_dict(m, [count, nroots, sk_some, sk, ov_some, ov, dflt])
                d["budget_used"] = str(m.eval(final, model_completion=True))
                d["budget_specified"] = str(m.eval(spec, model_completion=True))
                res["violations"].append({"clause": "budget differs from the saturating specification", "model": d})
        else:
            res["unknown"].append(f"{f.status}: {f.info}")
    res["queries"] = eng.queries
    res["solver_s"] = round(eng.solver_s, 2)
    res["encoded"] = sorted(E.short(n) for n in eng.encoded)
    return res


def model_dict(m, vs):
    return {str(v): str(m.eval(v, model_completion=True)) for v in vs}


def E_find(fns, pat):
    from mirsym.mir import find_fn
    return find_fn(fns, pat)


# ---------------------------------------------------------------------------------------------
def obligation(o, tier, seed):
    """Driver entry: returns [Outcome]."""
    import e2
    import native
    from driver import Outcome
    outs = []
    for profile, oc in (("dev", True), ("release", False)):
        oid = o["id"] + "_" + profile
        t0 = time.time()
        try:
            ctx = e2.context(overflow_checks=oc)
        except RuntimeError as e:
            outs.append(Outcome(oid, "mirsym", "inconclusive", str(e)))
            continue
        r = run(ctx.fns, ctx.structs, ctx.enums, profile)
        sample = {"obligation": oid, "statement": o["what"], "bounds": o["bounds"], "paths": r["paths"],
                  "queries": r["queries"], "solver_s": r["solver_s"], "functions": r["encoded"]}
        if r["unknown"]:
            outs.append(Outcome(oid, "mirsym", "inconclusive", "; ".join(r["unknown"])[:300], queries=r["queries"],
                                solver_s=r["solver_s"], sample=sample))
            continue
        if not r["violations"]:
            outs.append(Outcome(oid, "mirsym", "holds", "", queries=r["queries"], solver_s=r["solver_s"],
                                nontrivial=r["paths"] >= 2, sample=sample, site="Reader::nns_by_leaf budget"))
            continue
        v = r["violations"][0]
        # replay through the public API: 5 items, 2 trees, a count whose product with 2 overflows
        scen = ("dim 2\nadd 0 0.0,0.0\nadd 1 1.0,0.0\nadd 2 2.0,0.0\nadd 3 3.0,0.0\nadd 4 4.0,0.0\n"
                "build n_trees=2 seed=0\nexpect_valid\n"
                "query count=9223372036854775808 search_k=100 vec=0.0,0.0 expect_len=5\n"
                "query count=9223372036854775808 search_k=none vec=0.0,0.0 expect_len=5\n"
                "=== unset budget equals the explicit one\ndim 2\n" +
                "".join(f"add {i} {float(i)},{float(i % 3)}\n" for i in range(64)) +
                "build n_trees=2 split_after=2 seed=0\nbudget_equiv count=1 oversampling=64 queries=16\n"
                "=== an explicit budget is used as given (a huge one is exhaustive)\ndim 2\n" +
                "".join(f"add {i} {float(i % 8)},{float(i // 8)}\n" for i in range(64)) +
                "build n_trees=3 split_after=2 seed=0\n"
                "query count=40 search_k=18446744073709551615 vec=3.3,4.1 check=exact\n"
                "query count=64 search_k=18446744073709551615 vec=0.2,0.1 check=exact\n")
        nat = native.run_scenario(scen, profile=profile)
        rp = e2.save_replay(o["props"][0], oid, {"property": o["props"][0], "obligation": oid, "engine": "mirsym",
                                                 "statement": o["what"], "counterexample": v, "scenario": scen,
                                                 "native": nat})
        if nat["reproduced"]:
            outs.append(Outcome(oid, "mirsym", "fails", v["clause"] + " -- natively: " + "; ".join(
                l for l in nat["lines"] if l.startswith("RESULT")), queries=r["queries"], solver_s=r["solver_s"],
                sample=sample, clause=v["clause"], site="Reader::nns_by_leaf budget", replayed=True, replay_path=rp))
        else:
            outs.append(Outcome(oid, "mirsym", "inconclusive",
                                "counterexample did not reproduce natively: " + v["clause"], queries=r["queries"],
                                solver_s=r["solver_s"], sample=sample, replay_path=rp))
    return outs
