"""Shared paths, scratch-copy handling and small helpers for the arroy checks."""
import json
import os
import re
import shutil
import subprocess
import sys
import tempfile
import time

VERIF = os.path.dirname(os.path.dirname(os.path.abspath(__file__)))
REPO = os.environ.get("VERIF_REPO", "/repo")
MODELS = os.path.join(VERIF, "models")
HARNESS = os.path.join(VERIF, "harness")
EVIDENCE = os.environ.get("VERIF_EVIDENCE_DIR") or os.path.join(VERIF, "evidence")
CACHE = os.path.join(VERIF, ".cache")
KNOWN_FINDINGS = os.path.join(VERIF, "known_findings.json")

# exit codes of ./check
EXIT_OK, EXIT_VIOLATION, EXIT_INCONCLUSIVE = 0, 1, 2


def log(*a):
    print(*a, file=sys.stderr, flush=True)


def scratch_root():
    base = os.environ.get("VERIF_SCRATCH") or os.environ.get("TMPDIR") or "/tmp"
    os.makedirs(base, exist_ok=True)
    return base


class Scratch:
    """A throw-away copy of /repo's *current working tree* (sources only) outside /repo and /verif.

    The copy is what every engine works on, so that the encoding is regenerated from the
    current sources on every run.  It is removed (with its build output) on close().
    """

    def __init__(self, tag):
        self.dir = tempfile.mkdtemp(prefix=f"arroy-verif-{tag}-", dir=scratch_root())
        self.repo = os.path.join(self.dir, "repo")
        self.cuts = []          # every textual edit done to arroy's files, reported in evidence
        self.missing = []       # patterns that were expected but not found (=> inconclusive for users)
        self._copy()

    def _copy(self):
        def ignore(d, names):
            out = []
            if os.path.abspath(d) == os.path.abspath(REPO):
                out += [n for n in names if n in ("target", ".git", "assets", "examples")]
            return out
        shutil.copytree(REPO, self.repo, ignore=ignore, symlinks=True)

    def path(self, *p):
        return os.path.join(self.repo, *p)

    def read(self, rel):
        with open(self.path(rel)) as f:
            return f.read()

    def write(self, rel, text):
        with open(self.path(rel), "w") as f:
            f.write(text)

    def close(self):
        if os.environ.get("VERIF_KEEP_SCRATCH"):
            log(f"[scratch kept] {self.dir}")
            return
        shutil.rmtree(self.dir, ignore_errors=True)

    def __enter__(self):
        return self

    def __exit__(self, *a):
        self.close()

    # ---- Cargo.toml surgery -------------------------------------------------------------
    def use_models(self, names=("heed", "roaring", "tempfile", "memmap2", "tracing")):
        """Point the named dependencies at the environment models; drop dev-deps/examples."""
        lines = self.read("Cargo.toml").splitlines()
        out, section, skip = [], None, False
        replaced = set()
        for ln in lines:
            m = re.match(r"^\s*\[+([^\]]+)\]+\s*$", ln)
            if m:
                section = m.group(1).strip()
                skip = section in ("dev-dependencies", "example") or section.startswith("example")
                if section == "bench" or section == "workspace":
                    skip = True
                if skip:
                    continue
            if skip:
                continue
            if section == "dependencies":
                dm = re.match(r"^\s*([A-Za-z0-9_\-]+)\s*=", ln)
                if dm and dm.group(1) in names:
                    n = dm.group(1)
                    out.append(f'{n} = {{ path = "{MODELS}/{n}" }}')
                    replaced.add(n)
                    continue
            out.append(ln)
        for n in names:
            if n not in replaced:
                self.missing.append(f"Cargo.toml dependency line for {n}")
        out.append("")
        out.append("[workspace]")
        out.append("")
        out.append("[lints.rust]")
        out.append('unexpected_cfgs = { level = "allow", check-cfg = ["cfg(kani)"] }')
        self.write("Cargo.toml", "\n".join(out) + "\n")
        self.cuts.append("Cargo.toml: dependencies %s -> /verif/models/* (environment models); "
                         "dev-dependencies and examples dropped" % ",".join(sorted(replaced)))

    def standalone_workspace(self):
        """Keep the real dependencies; drop the [[example]] sections (examples/ is not copied)."""
        lines, out, skip = self.read("Cargo.toml").splitlines(), [], False
        for ln in lines:
            m = re.match(r"^\s*\[+([^\]]+)\]+\s*$", ln)
            if m:
                skip = m.group(1).strip() in ("example", "workspace")
                if skip:
                    continue
            if not skip:
                out.append(ln)
        out += ["", "[workspace]", ""]
        self.write("Cargo.toml", "\n".join(out) + "\n")

    def rewrite(self, rel, pattern, repl, what):
        txt = self.read(rel)
        new, n = re.subn(pattern, repl, txt, count=1, flags=re.M)
        if n == 0:
            self.missing.append(f"{rel}: {what}")
            return False
        self.write(rel, new)
        self.cuts.append(f"{rel}: {what}")
        return True

    def model_file_io(self):
        """TmpNodes writes through std::fs::File/BufWriter; point the two imports at the model."""
        a = self.rewrite("src/parallel.rs", r"^use std::fs::File;\s*$", "use tempfile::File;",
                         "import std::fs::File -> model file")
        b = self.rewrite("src/parallel.rs", r"^use std::io::\{BufWriter, Write\};\s*$",
                         "use std::io::Write;\nuse tempfile::BufWriter;",
                         "import std::io::BufWriter -> pass-through model writer")
        return a and b

    def inject_mod(self, parent_rel, mod_name, file_abs, cfg="kani"):
        """Append `#[cfg(kani)] #[path = ...] mod verif_x;` to a source file (child modules see
        the private items of their parent, so no visibility hook is needed in /repo)."""
        txt = self.read(parent_rel)
        txt += f'\n#[cfg({cfg})]\n#[path = "{file_abs}"]\nmod {mod_name};\n'
        self.write(parent_rel, txt)


def run(cmd, cwd=None, env=None, timeout=None, mem_kb=None, logfile=None):
    """Run a command, return (rc, output, seconds).  rc = -9 on timeout."""
    e = dict(os.environ)
    e.setdefault("CARGO_NET_OFFLINE", "true")
    if env:
        e.update(env)
    pre = None
    if mem_kb:
        import resource

        def pre():
            resource.setrlimit(resource.RLIMIT_AS, (mem_kb * 1024, mem_kb * 1024))
            os.setsid()
    else:
        pre = os.setsid
    t0 = time.time()
    p = subprocess.Popen(cmd, cwd=cwd, env=e, stdout=subprocess.PIPE, stderr=subprocess.STDOUT,
                         text=True, preexec_fn=pre, errors="replace")
    try:
        out, _ = p.communicate(timeout=timeout)
        rc = p.returncode
    except subprocess.TimeoutExpired:
        import signal
        try:
            os.killpg(p.pid, signal.SIGKILL)
        except ProcessLookupError:
            pass
        out, _ = p.communicate()
        rc = -9
    dt = time.time() - t0
    if logfile:
        with open(logfile, "w") as f:
            f.write(out)
    return rc, out, dt


def load_known_findings():
    if not os.path.exists(KNOWN_FINDINGS):
        return {"known": [], "fixed": []}
    with open(KNOWN_FINDINGS) as f:
        return json.load(f)
