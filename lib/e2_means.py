"""E2 obligation on the centroid sampling loops `two_means` / `two_means_binary_quantized` (C20:
degenerate data never hangs a build).  The functions are executed from their MIR with `cosine = true`
on a dataset class in which *every* sampled leaf has a norm that is NaN or <= 0 (all-zero vectors,
NaN vectors, subnormals whose norm underflows; one class per run: every norm NaN, or every vector with
the same symbolic norm n0 <= 0; distances are arbitrary f32).  In that
class every iteration takes the `continue` branch, so there is one path; it must return Ok after a bounded number of samples (the step budget of
the executor is the bound: a loop that does not consume its counter on that branch exhausts it)."""
import re
import time

import z3

from mirsym import engine as E
from mirsym import models as M
from mirsym.engine import BV, Agg, Cell, Opaque, Ref
from mirsym.mir import find_fn
from mirsym.models import mk_ok, mk_option, one, unit

import e2_tree

F32 = z3.Float32()
STEP_BUDGET = 8000           # the code needs < 3900 executed MIR blocks for its 200 samples; twice that is the bound


def models(norm_class):
    ms = []

    def reg(pat):
        def deco(f):
            ms.append((re.compile(pat), f))
            return f
        return deco

    def leaf(tag):
        return Agg("Leaf", None, {0: Opaque("header", {"of": tag}), 1: Agg("Cow", BV(0, 64), {0: Opaque("vector", {"id": tag})})})

    @reg(r"^ImmutableSubsetLeafs::<'_, D>::choose_two::<R>$")
    def _(eng, st, callee, a, ty):
        return one(mk_ok(mk_option([leaf("p"), leaf("q")])))

    @reg(r"^ImmutableSubsetLeafs::<'_, D>::choose::<R>$")
    def _(eng, st, callee, a, ty):
        st.env["samples"] = st.env.get("samples", 0) + 1
        return one(mk_ok(mk_option(leaf(f"k{st.env['samples']}"))))

    @reg(r"^Leaf::<'_, \w+>::into_owned$")
    def _(eng, st, callee, a, ty):
        return one(a[0])

    @reg(r"^<\w+ as Distance>::(normalize|init|update_mean)$|^new_leaf::<\w+>$")
    def _(eng, st, callee, a, ty):
        if callee.startswith("new_leaf"):
            return one(leaf("owned"))
        return one(unit())

    @reg(r"^<\w+ as Distance>::non_built_distance$")
    def _(eng, st, callee, a, ty):
        return one(eng.fresh("distance", F32))

    @reg(r"^<\w+ as Distance>::norm$")
    def _(eng, st, callee, a, ty):
        # the dataset class (one class per run keeps the loop on a single path)
        if norm_class == "nan":
            return one(z3.fpNaN(F32))        # every NaN payload behaves alike under is_nan / comparisons
        # every vector of the dataset has the same norm n0 <= 0 (all-zero vectors: 0.0; the symbolic n0
        # also covers -0.0 and any negative value a norm routine might return)
        n0 = z3.FP("norm_of_every_vector", F32)
        if not st.env.get("n0_assumed"):
            st.pc.append(z3.And(z3.Not(z3.fpIsNaN(n0)), z3.fpLEQ(n0, z3.FPVal(0.0, F32))))
            st.env["n0_assumed"] = True
        return one(n0)

    @reg(r"^core::f32::<impl f32>::is_nan$")
    def _(eng, st, callee, a, ty):
        return one(z3.fpIsNaN(a[0]))

    @reg(r"^UnalignedVector::<.*>::to_vec$|^<Cow<'_, UnalignedVector<.*>> as Deref>::deref$")
    def _(eng, st, callee, a, ty):
        return one(Opaque("floats"))

    return ms


def run_means(ctx, deadline):
    res = {"paths": 0, "violations": [], "unknown": [], "shapes": []}
    queries, solver_s, encoded = 0, 0.0, set()
    for name, norm_class in ((r"^two_means$", "nan"), (r"^two_means$", "non-positive"),
                             (r"^two_means_binary_quantized$", "nan"), (r"^two_means_binary_quantized$", "non-positive")):
        eng = E.Engine(ctx.fns, ctx.structs, ctx.enums, models(norm_class) + list(M.REGISTRY), e2_tree.INLINE, max_depth=3,
                       max_steps=STEP_BUDGET)
        fn = find_fn(ctx.fns, name)
        label = f"{fn.name}, every sampled norm {'NaN' if norm_class == 'nan' else 'in (-inf, 0]'}"
        finals = eng.run(fn, [Ref(Cell(Opaque("rng"))), Ref(Cell(Opaque("leafs"))), z3.BoolVal(True)], env={}, pc=[],
                         deadline=min(deadline, time.time() + 420), max_paths=50)
        queries += 0
        encoded |= set(E.short(x) for x in eng.encoded)
        for f in finals:
            res["paths"] += 1
            n = f.env.get("samples", 0)

            def viol(clause):
                res["violations"].append({"shape": label, "clause": clause, "pre": None, "values": {"function": fn.name, "samples": n}})
            if f.status == "unwind" and "step budget" in (f.info or ""):
                ok, _ = eng.check(f.pc)
                if ok:
                    viol(f"the sampling loop is still running after {n} samples when every sampled norm is zero or NaN "
                         f"(no bound in sight: the step budget of {STEP_BUDGET} blocks is exhausted)")
                continue
            if f.status in ("unknown", "unwind"):
                res["unknown"].append(f"{label}: {f.status}: {f.info}")
                continue
            ok, _ = eng.check(f.pc)
            if not ok:
                continue
            if f.status == "panic":
                viol("panics: " + f.info)
            elif not z3.is_true(z3.simplify(f.value.disc == BV(0, 64))):
                viol("returns an error although nothing failed")
        drawn = [f.env.get("samples", 0) for f in finals]
        res.setdefault("steps", []).append(max([f.state.steps for f in finals] or [0]))
        res["shapes"].append({"shape": label, "paths": len(finals), "ok_paths": len(finals),
                              "samples_drawn_min_max": [min(drawn), max(drawn)] if drawn else []})
        queries += eng.queries
        solver_s += eng.solver_s
    res["queries"], res["solver_s"] = queries, round(solver_s, 2)
    res["encoded"] = sorted(encoded)
    return res


def obligation(o, tier, seed):
    import e2
    import native
    from driver import Outcome
    try:
        ctx = e2.context(True)
    except RuntimeError as e:
        return [Outcome(o["id"], "mirsym", "inconclusive", str(e))]
    r = run_means(ctx, time.time() + 1700)
    return e2_tree.outcomes_from(o, r, "means", native, e2, Outcome)


def scenario(v):
    return "degenerate_build\n"
