"""Regenerates the seeded-change table of DESIGN.md from /verif/seeded/*/meta.json."""
import glob, json, os, re
rows = []
for mp in sorted(glob.glob('/verif/seeded/*/meta.json')):
    m = json.load(open(mp))
    sid = m.get('id')
    if m.get('in_progress'):
        continue
    notes = (m.get('needs_to_manifest') or '').strip().splitlines()
    title = next((l.strip('# ').strip() for l in notes if l.strip()), '')[:110]
    det = m.get('detected_by')
    checks = m.get('checks') or {}
    if not m.get('confirmed'):
        verdict = 'not confirmed (%s)' % ('patch does not apply' if not m.get('patch_applies') else 'demo/suite conditions not met')
    elif det:
        verdict = 'caught by ' + ', '.join(det)
        which = []
        for p in det:
            for l in checks[p]['lines']:
                mm = re.search(r'obligation=(\S+)', l)
                if mm and mm.group(1) not in which:
                    which.append(mm.group(1))
        if which:
            verdict += ' (' + ', '.join(which[:3]) + ')'
    else:
        ex = {p: r['exit'] for p, r in checks.items()}
        verdict = 'missed (exit codes %s)' % ex
    extra = m.get('comment', '')
    fr = m.get('first_round')
    if fr and not fr.get('detected_by') and det:
        verdict += ' — **strengthened**: the first version of the check missed it (exit %s)' % {p: r['exit'] for p, r in (fr.get('checks') or {}).items()}
    rows.append((sid, m.get('breaks_property'), title, verdict + ((' — ' + extra) if extra else '')))
tab = ['| id | property | change (first line of the agent\'s notes) | result of the quick checks |', '|---|---|---|---|']
for r in rows:
    tab.append('| %s | %s | %s | %s |' % r)
n_conf = sum(1 for r in rows if not r[3].startswith('not confirmed'))
n_caught = sum(1 for r in rows if r[3].startswith('caught'))
tab.append('')
tab.append(f'{n_caught} of {n_conf} confirmed changes are caught by the quick tier of the property they were written against (or a neighbouring one).')
p = '/verif/DESIGN.md'
s = open(p).read()
s = re.sub(r'<!-- SEED-TABLE-BEGIN -->.*<!-- SEED-TABLE-END -->', '<!-- SEED-TABLE-BEGIN -->\n' + '\n'.join(tab) + '\n<!-- SEED-TABLE-END -->', s, flags=re.S)
open(p, 'w').write(s)
print('\n'.join(tab))
