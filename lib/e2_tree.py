"""E2 T-obligations (C01, C04, C10, C15): one call of a recursive writer function from every
pre-state of a bounded forest family, executed from the function's rustc MIR.

Pre-states: one tree with concrete node ids and symbolic contents (item ids, bucket contents);
the representation invariant Inv is assumed, the function's contract (DESIGN.md section 3) is
asserted on the post-state = pre-state + TmpNodes deletes and puts (as the callers apply them)."""
import itertools
import re
import time

import z3

from mirsym import engine as E
from mirsym import models as M
from mirsym import world as W
from mirsym.engine import BV, Agg, Cell, Opaque, Ref
from mirsym.mir import find_fn
from mirsym.models import U, bit, popcount

INLINE = [
    (re.compile(r"^Writer::<D>::insert_items_in_file"), r"writer::.*::insert_items_in_file$"),
    (re.compile(r"^Writer::<D>::delete_items_in_file"), r"writer::.*::delete_items_in_file$"),
    (re.compile(r"^Writer::<D>::delete_tree$"), r"writer::.*::delete_tree$"),
    (re.compile(r"^Writer::<D>::make_tree_in_file"), r"writer::.*::make_tree_in_file$"),
    (re.compile(r"^Writer::<D>::fit_in_descendant$"), r"writer::.*::fit_in_descendant$"),
    (re.compile(r"^BuildOption::<'_>::cancelled$"), r"writer::.*::cancelled$"),
    (re.compile(r"^NodeId::tree$"), r"node_id::.*::tree$"),
    (re.compile(r"^NodeId::item$"), r"node_id::.*::item$"),
    (re.compile(r"^Key::tree$"), r"key::.*::tree$", "-> Key"),
    (re.compile(r"^Key::item$"), r"key::.*::item$", "-> Key"),
    (re.compile(r"^Key::new$"), r"key::.*::new$", "-> Key"),
    (re.compile(r"^randomly_split_children::<R>$"), r"^randomly_split_children$"),
    (re.compile(r"^split_imbalance$"), r"^split_imbalance$"),
    (re.compile(r"^ConcurrentNodeIds::next$"), r"parallel::.*::next$", "&ConcurrentNodeIds"),
    (re.compile(r"^ConcurrentNodeIds::new$"), r"parallel::.*::new$", "-> ConcurrentNodeIds"),
]


def make_engine(ctx, max_depth=4):
    from mirsym import world  # noqa: F401  (registers its models)
    return E.Engine(ctx.fns, ctx.structs, ctx.enums, list(M.REGISTRY), INLINE, max_depth=max_depth,
                    max_steps=4000)


# ------------------------------------------------------------------------------------ shapes
class Shape:
    """A tree shape with concrete node ids.  `spec` is a nested tuple:
       ('bucket',) | ('item',) | ('split', left_spec, right_spec)."""

    def __init__(self, name, spec):
        self.name, self.spec = name, spec


SHAPES_QUICK = [
    Shape("bucket", ("bucket",)),
    Shape("split(bucket,bucket)", ("split", ("bucket",), ("bucket",))),
    Shape("split(item,bucket)", ("split", ("item",), ("bucket",))),
    Shape("split(bucket,item)", ("split", ("bucket",), ("item",))),
    Shape("split(item,item)", ("split", ("item",), ("item",))),
]
SHAPES_THOROUGH = SHAPES_QUICK + [
    Shape("split(split(bucket,item),bucket)", ("split", ("split", ("bucket",), ("item",)), ("bucket",))),
    Shape("split(item,split(bucket,bucket))", ("split", ("item",), ("split", ("bucket",), ("bucket",)))),
    Shape("split(split(item,item),item)", ("split", ("split", ("item",), ("item",)), ("item",))),
]


class Pre:
    """Instantiated pre-state of one shape."""

    def __init__(self, shape, prefix=""):
        self.shape = shape
        self.store = {}          # tid -> node
        self.cond = []           # Inv + side conditions
        self.items = BV(0, U)    # I
        self.item_vars, self.bucket_vars, self.zero_vars = [], [], []
        self.next_tid = 0
        self.prefix = prefix
        self.sets = []           # disjoint pieces
        self.root = self._build(shape.spec)
        # pairwise disjointness of all pieces, ids inside the universe
        for a, b in itertools.combinations(self.sets, 2):
            self.cond.append(a & b == BV(0, U))
        # a few ids are left free for new items / fresh nodes
        self.cond.append(popcount(self.items, 32) <= BV(6, 32))

    def _tid(self):
        t = self.next_tid
        self.next_tid += 1
        return t

    def _build(self, spec):
        if spec[0] == "item":
            x = z3.BitVec(f"{self.prefix}item{len(self.item_vars)}", 32)
            self.item_vars.append(x)
            self.cond.append(z3.ULT(x, BV(U, 32)))
            self.sets.append(bit(x))
            self.items = self.items | bit(x)
            return W.item_id(x)
        if spec[0] == "bucket":
            t = self._tid()
            b = z3.BitVec(f"{self.prefix}bucket{t}", U)
            self.bucket_vars.append((t, b))
            self.cond.append(b != BV(0, U))
            self.sets.append(b)
            self.items = self.items | b
            self.store[t] = W.bucket(b)
            return W.tree_id(t)
        t = self._tid()
        left = self._build(spec[1])
        right = self._build(spec[2])
        z = z3.Bool(f"{self.prefix}zero_normal{t}")
        self.zero_vars.append((t, z))
        self.store[t] = W.split(left, right, z, tid=t)
        return W.tree_id(t)


# ------------------------------------------------------------------------------------ oracle
def apply_tmp(eng, store, tmp):
    """Post-state tree store, as delete_items_from_trees / insert_items_in_current_trees apply a
    TmpNodesReader: deletes first, then puts that were not deleted (with remapped ids).  Node ids
    are concrete on every path (fresh ids come from the inlined id generator over a concrete set)."""
    post = dict(store)
    deleted = []
    symbolic_deletes = tmp.setdefault("symbolic_deletes", [])
    del symbolic_deletes[:]
    for d in tmp["deleted"]:
        d = z3.simplify(d)
        if not z3.is_bv_value(d):
            # a symbolic id can only be an *item* id that leaked into a tree-node deletion: report it
            # if it can hit a live tree node, otherwise it deletes nothing
            symbolic_deletes.append(d)
            continue
        deleted.append(d.as_long())
    remap = {}
    for a, b in tmp["remap"]:
        a, b = z3.simplify(a), z3.simplify(b)
        remap[a.as_long()] = b.as_long()
    for d in deleted:
        post.pop(d, None)
    for pid, node in tmp["puts"]:
        pid = z3.simplify(pid)
        if not z3.is_bv_value(pid):
            raise E.Unknown("symbolic node id in TmpNodes::put")
        p = pid.as_long()
        if p in deleted:
            continue
        post[remap.get(p, p)] = node
    return post, deleted


def walk(eng, post, nid, seen_nodes, problems, conds, capacity=None, oversize=None):
    """Items reached from `nid` (z3 bit-set); structural problems are appended to `problems`
    (concrete facts) and `conds` collects z3 conditions that must hold (disjointness...)."""
    mode = W.mode_of(nid)
    if not z3.is_bv_value(mode):
        raise E.Unknown("symbolic child kind in the post-state")
    mode = mode.as_long()
    x = z3.simplify(nid.f[1])
    if mode == W.MODE_ITEM:
        return bit(x), [("item", x)]
    if mode != W.MODE_TREE:
        problems.append(f"child of kind {mode}")
        return BV(0, U), []
    if not z3.is_bv_value(x):
        raise E.Unknown("symbolic tree id in the post-state")
    t = x.as_long()
    if t in seen_nodes:
        problems.append(f"tree node {t} reached twice")
        return BV(0, U), []
    seen_nodes.add(t)
    node = post.get(t)
    if node is None:
        problems.append(f"dangling reference to tree node {t}")
        return BV(0, U), []
    k = W.node_kind(node)
    if k == W.BUCKET:
        b = W.bucket_bits(eng, node)
        if oversize is not None:
            oversize.append((t, b))
        return b, []
    if k == W.SPLIT:
        sp = node.f[0]
        lb, li = walk(eng, post, sp.f[0], seen_nodes, problems, conds, capacity, oversize)
        rb, ri = walk(eng, post, sp.f[1], seen_nodes, problems, conds, capacity, oversize)
        conds.append(("each item once", lb & rb == BV(0, U)))
        return lb | rb, li + ri
    problems.append(f"leaf under tree key {t}")
    return BV(0, U), []


def check_inv(eng, pc, post, root, expected, stored, label, untouched=None, tmp=None):
    """Decide Inv(post tree from root, expected item set); returns a violation dict or None."""
    problems, conds, seen = [], [], set()
    for d in (tmp or {}).get("symbolic_deletes", []):
        for t in sorted(post):
            ok, m = eng.check(pc, d == BV(t, 32))
            if ok:
                return {"clause": f"an item id is passed to TmpNodes::remove and deletes the live tree node {t} that happens to carry the same number",
                        "model": m, "cond": d == BV(t, 32)}
    reached, item_children = walk(eng, post, root, seen, problems, conds)
    if problems:
        ok, m = eng.check(pc)
        if ok:
            return {"clause": problems[0], "model": m}
    orphans = sorted(set(post) - seen - set(untouched or ()))
    if orphans:
        ok, m = eng.check(pc)
        if ok:
            return {"clause": f"unreferenced tree node(s) {orphans} left behind", "model": m}
    for what, c in conds:
        ok, m = eng.check(pc, z3.Not(c))
        if ok:
            return {"clause": what + " violated (an item is reached twice)", "model": m, "cond": z3.Not(c)}
    for _, x in item_children:
        ok, m = eng.check(pc, (stored & bit(x)) == BV(0, U))
        if ok:
            return {"clause": "the tree refers to an item that is not stored", "model": m,
                    "cond": (stored & bit(x)) == BV(0, U)}
    ok, m = eng.check(pc, reached != expected)
    if ok:
        return {"clause": f"the tree reaches {m.eval(reached, model_completion=True)} instead of "
                          f"{m.eval(expected, model_completion=True)} (bit-sets over ids 0..{U})",
                "model": m, "reached": reached, "expected": expected, "cond": reached != expected}
    return None


# ------------------------------------------------------------------------------------ common arguments
DIMS = z3.BitVec("dimensions", 64)
DIMS_OK = z3.And(z3.UGE(DIMS, 1), z3.ULE(DIMS, 4096))


def writer_value(index):
    return Agg("Writer", None, {0: Opaque("Database"), 1: index, 2: DIMS, 3: Agg("Option", BV(0, 64), {})})


def options_value(split_after):
    return Agg("BuildOption", None, {0: Agg("Option", BV(0, 64), {}), 1: Agg("Option", BV(1, 64), {0: split_after}),
                                     2: Agg("Option", BV(0, 64), {}), 3: Opaque("cancel"), 4: Opaque("progress")})


def node_ids_value(eng, used_tids, pc):
    """Run ConcurrentNodeIds::new(used) from its MIR."""
    fn = find_fn(eng.fns, r"parallel::.*::new$") if False else [f for n, f in eng.fns.items()
                                                              if re.search(r"parallel::.*::new$", n) and "-> ConcurrentNodeIds" in f.header][0]
    used = 0
    for t in used_tids:
        used |= 1 << t
    finals = eng.run(fn, [BV(used, U)], env={}, pc=pc)
    rets = [f for f in finals if f.status == "return"]
    if len(rets) != 1 or len(finals) != 1:
        raise E.Unknown("ConcurrentNodeIds::new did not return on a single path: " +
                        "; ".join(f"{f.status} {f.info}" for f in finals)[:300])
    return rets[0].value


def model_values(m, pre, extra=()):
    d = {}
    for x in pre.item_vars:
        d[str(x)] = m.eval(x, model_completion=True).as_long()
    for t, b in pre.bucket_vars:
        v = m.eval(b, model_completion=True).as_long()
        d[str(b)] = [i for i in range(U) if v >> i & 1]
    for t, z in pre.zero_vars:
        d[str(z)] = z3.is_true(m.eval(z, model_completion=True))
    d["dimensions"] = m.eval(DIMS, model_completion=True).as_long()
    for name, term in extra:
        v = m.eval(term, model_completion=True)
        if z3.is_bv_value(v):
            v = v.as_long()
            if term.size() == U and name.startswith("set:"):
                v = [i for i in range(U) if v >> i & 1]
        elif z3.is_true(v) or z3.is_false(v):
            v = z3.is_true(v)
        d[name] = v
    return d


def error_violation(eng, final, rv, faults):
    """An Err result is acceptable only under a fault schedule, and then only as the cancellation
    error (when the callback has answered true) or as the injected store/temp-file error."""
    if not faults:
        return "returns Err although nothing failed"
    err = rv.f.get(0)
    names = eng.enums.get("Error", [])
    if isinstance(err, Agg) and err.kind == "Error" and err.disc is not None:
        d = z3.simplify(err.disc)
        if z3.is_bv_value(d) and d.as_long() < len(names) and names[d.as_long()] == "BuildCancelled":
            n = final.env.get("cancel_from")
            polls = final.env.get("polls", 0)
            okk, _ = eng.check(final.pc, z3.UGT(n, BV(polls, 32)))
            if okk:
                return "reports BuildCancelled although the callback never answered true"
            return None
        return f"returns the unexpected error {names[d.as_long()] if z3.is_bv_value(d) and d.as_long() < len(names) else d}"
    if isinstance(err, Agg) and err.kind == "heed::Error":
        return None if final.env.get("injected") else "returns a store error that was never injected"
    return "returns an unidentified error value"


# ------------------------------------------------------------------------------------ insert_items_in_file
def run_insert(ctx, shapes, max_new, deadline, faults=False):
    eng = make_engine(ctx)
    fn = find_fn(ctx.fns, r"writer::.*::insert_items_in_file$")
    results = {"paths": 0, "violations": [], "unknown": [], "shapes": []}
    for shape in shapes:
        pre = Pre(shape)
        new = z3.BitVec("new_items", U)
        split_after = z3.BitVec("split_after", 64)
        index = z3.BitVec("index", 16)
        pc = list(pre.cond) + [DIMS_OK, new != BV(0, U), new & pre.items == BV(0, U), popcount(new, 32) <= BV(max_new, 32),
                                z3.UGE(split_after, 1), z3.ULE(split_after, 3)]
        try:
            ids = node_ids_value(eng, sorted(pre.store.keys()), pc)
        except E.Unknown as e:
            results["unknown"].append(f"{shape.name}: {e}")
            continue
        env = {"store": dict(pre.store), "frozen": dict(pre.store), "stored_items": pre.items | new,
               "leafs": new, "tmp": {"puts": [], "deleted": [], "remap": []}, "sides": []}
        large = Cell(BV(0, U))
        env["large_cell"] = large
        if faults:
            env["cancel_from"] = z3.BitVec("cancel_from_poll", 32)
            env["put_fault_at"] = z3.BitVec("tmp_put_fault_at", 32)
            pc.append(z3.UGE(env["cancel_from"], 1))
        frozen = Agg("FrozzenReader", None, {0: Ref(Cell(Opaque("leafs"))), 1: Ref(Cell(Opaque("trees"))),
                                             2: Ref(Cell(ids))})
        args = [Ref(Cell(writer_value(index))), Ref(Cell(options_value(split_after))), Ref(Cell(frozen)),
                Ref(Cell(Opaque("rng"))), pre.root, Ref(Cell(new)), Ref(large), Ref(Cell(Opaque("TmpNodes")))]
        finals = eng.run(fn, args, env=env, pc=pc, deadline=deadline)
        n_ok = 0
        for f in finals:
            if time.time() > deadline + 300:
                results["unknown"].append("post-processing of the enumerated paths: engine deadline reached")
                break
            results["paths"] += 1
            if f.status in ("unknown", "unwind"):
                results["unknown"].append(f"{shape.name}: {f.status}: {f.info}")
                continue
            if f.status == "panic":
                ok, m = eng.check(f.pc)
                if ok:
                    results["violations"].append({"shape": shape.name, "clause": "panics: " + f.info, "pre": pre,
                                                  "values": model_values(m, pre, [("set:new_items", new), ("split_after", split_after)])})
                continue
            rv = f.value
            if not (isinstance(rv, Agg) and z3.is_true(z3.simplify(rv.disc == BV(0, 64)))):
                bad = error_violation(eng, f, rv, faults)
                if bad:
                    ok, m = eng.check(f.pc)
                    if ok:
                        results["violations"].append({"shape": shape.name, "clause": bad,
                                                      "pre": pre, "values": model_values(m, pre, [("set:new_items", new)])})
                continue
            n_ok += 1
            try:
                post, _deleted = apply_tmp(eng, pre.store, f.env["tmp"])
                # the caller ignores the returned id for the root call: the root stays where it was
                v = check_inv(eng, f.pc, post, pre.root, pre.items | new, pre.items | new, "insert", tmp=f.env["tmp"])
                if v is None:
                    v = check_capacity(eng, f, post, pre.root, split_after)
                if v is None:
                    v = check_routing(eng, f, post)
            except E.Unknown as e:
                results["unknown"].append(f"{shape.name}: {e}")
                continue
            if v is not None:
                m = v["model"]
                fr_ok, fm = False, None
                try:
                    fr_ok, fm = eng.check(f.pc + replay_friendly(pre, split_after), v.get("cond"))
                except E.Unknown:
                    pass
                if fr_ok:
                    m = fm
                vals = model_values(m, pre, [("set:new_items", new), ("split_after", split_after)] +
                                    [(f"side[{i}]", b) for i, (_, b) in enumerate(f.env.get("sides", []))])
                vals["side_items"] = [m.eval(x, model_completion=True).as_long() if x is not None else None
                                      for x, _ in f.env.get("sides", [])]
                # code that looks at margins itself instead of asking D::side
                zero32 = z3.FPVal(0.0, z3.Float32())
                vals["margin_items"] = [m.eval(x, model_completion=True).as_long() if (x is not None and z3.is_expr(x)) else x
                                        for x in f.env.get("margin_items", [])]
                vals["margin_signs"] = [1 if z3.is_true(m.eval(z3.fpGT(x, zero32), model_completion=True)) else
                                        (-1 if z3.is_true(m.eval(z3.fpLT(x, zero32), model_completion=True)) else 0)
                                        for x in f.env.get("margins", [])]
                results["violations"].append({"shape": shape.name, "clause": v["clause"], "pre": pre, "values": vals})
        results["shapes"].append({"shape": shape.name, "paths": len(finals), "ok_paths": n_ok})
    results["queries"], results["solver_s"] = eng.queries, round(eng.solver_s, 2)
    results["encoded"] = sorted(E.short(n) for n in eng.encoded)
    return results


def check_routing(eng, final, post):
    """[C04] below a non-zero normal every new id sits on the side D::side answered for it."""
    sides = final.env.get("sides", [])
    sites = final.env.get("side_sites", [])
    for (item, b), tid in zip(sides, sites):
        if tid is None or item is None or tid not in post:
            continue
        node = post[tid]
        if W.node_kind(node) != W.SPLIT:
            continue
        sp = node.f[0]
        problems, conds = [], []
        lb, _ = walk(eng, post, sp.f[0], set(), problems, conds)
        rb, _ = walk(eng, post, sp.f[1], set(), problems, conds)
        want = z3.If(b, rb, lb)
        cond = (want & bit(item)) == BV(0, U)
        ok, m = eng.check(final.pc, cond)
        if ok:
            return {"clause": f"a new item is not placed on the side of split {tid} that D::side returned for it",
                    "model": m, "cond": cond}
    return None


def check_routing_new(eng, final, post):
    """[C04] for the splits a step creates: below a stored non-zero normal every item sits on the
    side D::side answered for it against that very normal."""
    by_nid = {}
    for t, node in post.items():
        if W.node_kind(node) != W.SPLIT:
            continue
        nrm = node.f[0].f[2]
        while isinstance(nrm, Ref):
            nrm = eng.deref(nrm)
        if isinstance(nrm, Agg) and nrm.kind == "Cow":
            nrm = nrm.f[0]
        if isinstance(nrm, Opaque) and isinstance(nrm.data, dict) and nrm.data.get("nid"):
            by_nid[nrm.data["nid"]] = (t, node, nrm.data["zero"])
    sides = final.env.get("sides", [])
    sites = final.env.get("side_sites", [])
    for (item, b), site in zip(sides, sites):
        if site not in by_nid or item is None:
            continue
        t, node, zero = by_nid[site]
        sp = node.f[0]
        problems, conds = [], []
        lb, _ = walk(eng, post, sp.f[0], set(), problems, conds)
        rb, _ = walk(eng, post, sp.f[1], set(), problems, conds)
        want = z3.If(b, rb, lb)
        it = item if z3.is_expr(item) else BV(item, 32)
        cond = z3.And(z3.Not(zero), (want & bit(it)) == BV(0, U))
        ok, m = eng.check(final.pc, cond)
        if ok:
            return {"clause": f"an item is not on the side of the new split {t} that D::side returned for it against the stored (non-zero) normal",
                    "model": m, "cond": cond}
    return None


def check_capacity(eng, final, post, root, split_after):
    """[C15/C10] every bucket above capacity is listed in large_descendants by its node id, and
    everything listed there is the id of a bucket of the post-state."""
    large = final.state.env["large_cell"].v
    problems, conds, seen, buckets = [], [], set(), []
    walk(eng, post, root, seen, problems, conds, None, buckets)
    bucket_ids = 0
    for t, b in buckets:
        bucket_ids |= 1 << t
        over = z3.UGT(popcount(b, 64), split_after)
        listed = (large & BV(1 << t, U)) != BV(0, U)
        ok, m = eng.check(final.pc, z3.And(over, z3.Not(listed)))
        if ok:
            return {"clause": f"bucket {t} holds more items than split_after but is not reported in large_descendants",
                    "model": m, "cond": z3.And(over, z3.Not(listed))}
    ok, m = eng.check(final.pc, (large & ~BV(bucket_ids, U)) != BV(0, U))
    if ok:
        return {"clause": f"large_descendants lists {m.eval(large, model_completion=True)} which is not the id of a bucket of the tree "
                          f"(buckets: {sorted(t for t, _ in buckets)})", "model": m,
                "cond": (large & ~BV(bucket_ids, U)) != BV(0, U)}
    return None


# ------------------------------------------------------------------------------------ replay scenarios
def subtree_items(pre, nid):
    mode = W.mode_of(nid).as_long()
    if mode == W.MODE_ITEM:
        return bit(nid.f[1])
    node = pre.store[z3.simplify(nid.f[1]).as_long()]
    if W.node_kind(node) == W.BUCKET:
        return node.f[0].f[0].f[0]
    sp = node.f[0]
    return subtree_items(pre, sp.f[0]) | subtree_items(pre, sp.f[1])


def replay_friendly(pre, split_after):
    """Extra constraints that let a step-level counterexample survive the rest of `build`: every
    split node of the pre-state holds more items than one bucket may (otherwise the deletion pass,
    which runs first, merges it)."""
    cs = [z3.UGE(DIMS, 2), z3.ULE(DIMS, 4)]
    for t, node in pre.store.items():
        if W.node_kind(node) == W.SPLIT:
            cs.append(z3.UGT(popcount(subtree_items(pre, W.tree_id(t)), 64), split_after))
    return cs


def placement(pre, values):
    """item id -> (sx, sy) signs according to where the item sits in the pre-state tree"""
    pos = {}

    def rec(nid, depth, signs):
        mode = W.mode_of(nid).as_long()
        if mode == W.MODE_ITEM:
            pos[values[str(nid.f[1])]] = signs
            return
        t = z3.simplify(nid.f[1]).as_long()
        node = pre.store[t]
        if W.node_kind(node) == W.BUCKET:
            for i in values[f"{pre.prefix}bucket{t}"]:
                pos[i] = signs
            return
        sp = node.f[0]
        for side, child in ((-1, sp.f[0]), (1, sp.f[1])):
            s2 = list(signs)
            if depth < 2:
                s2[depth] = side
            rec(child, depth + 1, s2)
    rec(pre.root, 0, [1, 1])
    return pos


def vec_of(i, signs, dim=2):
    return f"{signs[0] * (1 + i / 100.0):.2f},{signs[1] * (1 + i / 100.0):.2f}" + ",0.0" * (dim - 2)


def scenario(pre, values, adds=(), dels=(), split_after=2, n_trees=1, seeds=(0, 1, 2, 3, 4, 5), add_signs=None,
             extra_steps=(), second_tree=False, check_capacity=False):
    pos = placement(pre, values)
    dim = min(6, max(2, int(values.get("dimensions", 2))))
    lines = [f"dim {dim}"]
    depth_of = {}

    def emit(nid, depth):
        if W.mode_of(nid).as_long() == W.MODE_ITEM:
            return
        t = z3.simplify(nid.f[1]).as_long()
        node = pre.store[t]
        if W.node_kind(node) == W.BUCKET:
            lines.append(f"raw_bucket {t} " + ",".join(map(str, values[f'{pre.prefix}bucket{t}'])))
            return
        sp = node.f[0]
        zero = values.get(f"{pre.prefix}zero_normal{t}", False)
        normal = ("0.0,0.0" if zero else ("1.0,0.0" if depth == 0 else "0.0,1.0")) + ",0.0" * (dim - 2)

        def ref(c):
            return ("item:" if W.mode_of(c).as_long() == W.MODE_ITEM else "tree:") + str(
                values[str(c.f[1])] if W.mode_of(c).as_long() == W.MODE_ITEM else z3.simplify(c.f[1]).as_long())
        lines.append(f"raw_split {t} {ref(sp.f[0])} {ref(sp.f[1])} {normal}")
        emit(sp.f[0], depth + 1)
        emit(sp.f[1], depth + 1)
    emit(pre.root, 0)
    for i, signs in sorted(pos.items()):
        lines.append(f"raw_item {i} {vec_of(i, signs, dim)}")
    root_t = z3.simplify(pre.root.f[1]).as_long()
    if second_tree:
        lines.append("raw_bucket 10 " + ",".join(str(i) for i in sorted(pos)))
        lines.append(f"raw_meta roots={root_t},10 items=" + ",".join(str(i) for i in sorted(pos)))
    else:
        lines.append(f"raw_meta roots={root_t} items=" + ",".join(str(i) for i in sorted(pos)))
    for i in adds:
        signs = (add_signs or {}).get(i, [1, 1])
        lines.append(f"add {i} {vec_of(i, signs, dim)}")
    for i in dels:
        lines.append(f"del {i}")
    lines += list(extra_steps)
    out = []
    for s in seeds:
        out.append(f"=== seed {s}")
        out += lines
        out.append(f"build n_trees={n_trees} split_after={split_after} seed={s}")
        out.append("expect_valid")
        out.append("expect_routing")
        if check_capacity:
            out.append(f"expect_buckets_within {split_after}")
    return "\n".join(out) + "\n"


# ------------------------------------------------------------------------------------ driver entries
def role_of(clause):
    """Violations are keyed by role (site + kind of breakage), not by solver values."""
    c = re.sub(r"\[[^\]]*\]|\d+", "#", clause)
    return re.sub(r"#b[01]+|#x[0-9a-f]+", "#", c)[:90]


def insert_obligation(o, tier, seed):
    import e2
    import native
    from driver import Outcome
    t0 = time.time()
    try:
        ctx = e2.context(True)
    except RuntimeError as e:
        return [Outcome(o["id"], "mirsym", "inconclusive", str(e))]
    if tier == "thorough":
        # depth-1 shapes with up to 3 new ids, depth-2 shapes with up to 2 (3 new ids below a depth-2
        # shape: z3 gives no verdict on some feasibility queries within its per-query limit -- measured)
        r = run_insert(ctx, SHAPES_QUICK, 3, time.time() + 1500)
        r2 = run_insert(ctx, [sh for sh in SHAPES_THOROUGH if sh not in SHAPES_QUICK], 2, time.time() + 1500)
        for k in ("paths", "queries"):
            r[k] += r2[k]
        r["solver_s"] = round(r["solver_s"] + r2["solver_s"], 2)
        for k in ("violations", "unknown", "shapes"):
            r[k] += r2[k]
        r["encoded"] = sorted(set(r["encoded"]) | set(r2["encoded"]))
    else:
        r = run_insert(ctx, SHAPES_QUICK, 2, time.time() + 600)
    return outcomes_from(o, r, "insert", native, e2, Outcome)


def outcomes_from(o, r, kind, native, e2, Outcome):
    outs = []
    sample = {"obligation": o["id"], "statement": o["what"], "bounds": o["bounds"], "paths": r["paths"],
              "queries": r["queries"], "solver_s": r["solver_s"], "functions": r["encoded"],
              "per_shape": r["shapes"]}
    if r["unknown"]:
        capped = [u for u in r["unknown"] if "engine deadline reached" in u]
        if o.get("_tier") == "thorough" and len(capped) == len(r["unknown"]):
            # thorough tier: the time cap of the path enumeration is part of the stated bound; what was
            # explored is reported (and violations found so far are still replayed and reported)
            sample["truncated"] = (f"time cap reached in {len(capped)} run(s): {r['paths']} paths explored; "
                                   "the enumeration is incomplete")
            log_note = sample["truncated"]
            if not r["violations"]:
                outs.append(Outcome(o["id"], "mirsym", "holds", "", queries=r["queries"], solver_s=r["solver_s"],
                                    nontrivial=r["paths"] >= 2, sample=sample, site=o.get("site")))
                print(f"  note: {o['id']}: {log_note}", flush=True)
                return outs
        else:
            outs.append(Outcome(o["id"], "mirsym", "inconclusive", "; ".join(r["unknown"][:3])[:300],
                                queries=r["queries"], solver_s=r["solver_s"], sample=sample))
            if not r["violations"]:
                return outs
            # violations found next to paths without a verdict are still replayed and reported
    if not r["violations"]:
        outs.append(Outcome(o["id"], "mirsym", "holds", "", queries=r["queries"], solver_s=r["solver_s"],
                            nontrivial=r["paths"] >= 2, sample=sample, site=o.get("site")))
        return outs
    # group by (shape, role); replay one representative per group (at most 4 groups are replayed)
    groups = {}
    for v in r["violations"]:
        groups.setdefault((v["shape"], role_of(v["clause"])), []).append(v)
    replayed = 0
    sample["violation_groups"] = len(groups)
    for (shape, role), vs in groups.items():
        if replayed >= 4 and outs:
            break       # further groups are listed in the replay files of the first ones only
        v = vs[0]
        oid = o["id"]
        scen = build_scenario(kind, v)
        nat = None
        if scen and replayed < 4:
            nat = native.run_scenario(scen)
            replayed += 1
        vals = dict(v["values"])
        rp = e2.save_replay(o["props"][0], f"{oid}.{len(outs)}", {
            "property": o["props"][0], "obligation": oid, "engine": "mirsym", "statement": o["what"],
            "counterexample": {"shape": shape, "clause": v["clause"], "values": vals, "same_role": len(vs)},
            "scenario": scen, "native": nat})
        clause = f"{shape}: {v['clause']}"
        if nat and nat["reproduced"]:
            outs.append(Outcome(oid, "mirsym", "fails", clause + " -- natively: " + "; ".join(
                l for l in nat["lines"] if l.startswith("RESULT violation"))[:200], queries=r["queries"],
                solver_s=r["solver_s"], sample=sample, clause=f"{kind}/{shape}/{role}", site=o.get("site"),
                replayed=True, replay_path=rp))
        else:
            why = "not replayed (budget)" if nat is None else ("did not reproduce natively" if nat["reproduced"] is False else "native replay broke")
            outs.append(Outcome(oid, "mirsym", "inconclusive", f"step-level counterexample {why}: {clause}",
                                queries=r["queries"], solver_s=r["solver_s"], sample=sample, replay_path=rp))
    return outs


def build_scenario(kind, v):
    pre, vals = v["pre"], v["values"]
    try:
        sa = int(vals.get("split_after", 2))
        if kind == "make_tree":
            # a first build over S (Euclidean, points on the x axis with alternating signs so that a
            # plane through the origin separates them), several RNG seeds
            its = vals.get("set:item_set", [])
            if not its:
                return None
            if vals.get("abstract_imbalance"):
                return skewed_scenarios(sa)
            out = []
            for seed in range(6):
                out.append(f"=== seed {seed}")
                out.append("dim 2")
                for k, i in enumerate(its):
                    out.append(f"add {i} {(-1) ** k * (k + 1):.1f},0.0")
                out.append(f"build n_trees=1 split_after={sa} seed={seed}")
                out += ["expect_valid", f"expect_buckets_within {sa}", "expect_routing"]
            return "\n".join(out) + "\n"
        if kind == "insert":
            adds = vals.get("set:new_items", [])
            signs = {}
            for i, it in enumerate(vals.get("side_items", [])):
                if it is None:
                    continue
                b = vals.get(f"side[{i}]")
                s = signs.setdefault(it, [])
                s.append(1 if b else -1)
            for it, sg in zip(vals.get("margin_items", []), vals.get("margin_signs", [])):
                if it is not None:
                    signs.setdefault(it, []).append(sg)      # 0 = exactly on the plane
            add_signs = {it: (s + [1, 1])[:2] for it, s in signs.items()}
            return scenario(pre, vals, adds=adds, split_after=sa, add_signs=add_signs, check_capacity=True)
        if kind == "delete":
            # ids of the update set that are still stored are overwrites (the new vector goes to the
            # opposite side of every plane), the others are deletions
            pos = placement(pre, vals)
            over = [i for i in vals.get("set:overwritten_items", []) if i in vals.get("set:to_delete", []) and i in pos]
            dels = [i for i in vals.get("set:to_delete", []) if i not in over]
            signs = {i: [-x for x in pos[i]] or [-1, -1] for i in over}
            return scenario(pre, vals, adds=over, add_signs=signs, dels=dels, split_after=sa, check_capacity=True)
        if kind == "history":
            import e2_build
            return e2_build.history_scenario(v)
        if kind == "upgrade":
            pend = vals.get("pending_updates", [])
            return ("upgrade pending=" + (",".join(map(str, pend)) or "-") + "\nupgrade pending=3\nupgrade06\n")
        if kind == "simd":
            import e2_simd
            return e2_simd.simd_scenario(v)
        if kind == "metric":
            import e2_metric
            return e2_metric.metric_scenario(v)
        if kind == "iter":
            import e2_metric
            return e2_metric.iter_scenario(v)
        if kind == "cosine_def":
            return "cosine_definition\n"
        if kind == "monotone":
            import e2_search
            return e2_search.monotone_scenario(v)
        if kind == "means":
            import e2_means
            return e2_means.scenario(v)
        if kind == "dot_preprocess":
            import e2_dot
            return e2_dot.scenario(v)
        if kind == "query_entry":
            import e2_query
            return e2_query.query_scenario(v)
        if kind == "search":
            import e2_search
            return e2_search.search_scenario(v, vals.get("unlimited", False))
        if kind == "delete_trees":
            stored = set(placement(pre, vals))
            gone = [i for i in vals.get("set:already_deleted_items", []) if i in stored]
            # keep the index larger than one bucket so that build does not take the single-bucket shortcut
            return scenario(pre, vals, dels=gone, split_after=1, n_trees=max(1, int(vals.get("target_n_trees", 1))),
                            seeds=(0,), second_tree=True)
    except Exception as e:  # scenario construction is best effort
        return None
    return None


# ------------------------------------------------------------------------------------ delete_items_in_file
def run_delete(ctx, shapes, deadline, faults=False):
    eng = make_engine(ctx)
    fn = find_fn(ctx.fns, r"writer::.*::delete_items_in_file$")
    results = {"paths": 0, "violations": [], "unknown": [], "shapes": []}
    for shape in shapes:
        pre = Pre(shape)
        dele = z3.BitVec("to_delete", U)
        split_after = z3.BitVec("split_after", 64)
        index = z3.BitVec("index", 16)
        pc = list(pre.cond) + [DIMS_OK, z3.UGE(split_after, 1), z3.ULE(split_after, 3)]
        remaining = pre.items & ~dele
        # the update set holds deleted ids (gone from the database) and overwritten ids (still there)
        overwritten = z3.BitVec("overwritten_items", U)
        env = {"store": dict(pre.store), "frozen": dict(pre.store), "stored_items": remaining,
               "db_items": remaining | (overwritten & dele & pre.items),
               "leafs": BV(0, U), "tmp": {"puts": [], "deleted": [], "remap": []}, "sides": []}
        if faults:
            env["cancel_from"] = z3.BitVec("cancel_from_poll", 32)
            env["put_fault_at"] = z3.BitVec("tmp_put_fault_at", 32)
            pc.append(z3.UGE(env["cancel_from"], 1))
        root_t = z3.simplify(pre.root.f[1])
        args = [Ref(Cell(writer_value(index))), Ref(Cell(options_value(split_after))), Ref(Cell(Opaque("RoTxn"))),
                root_t, Ref(Cell(Opaque("TmpNodes"))), Ref(Cell(dele))]
        finals = eng.run(fn, args, env=env, pc=pc, deadline=deadline)
        n_ok = 0
        for f in finals:
            if time.time() > deadline + 300:
                results["unknown"].append("post-processing of the enumerated paths: engine deadline reached")
                break
            results["paths"] += 1
            extra = [("set:to_delete", dele), ("split_after", split_after), ("set:overwritten_items", overwritten)]
            if f.status in ("unknown", "unwind"):
                results["unknown"].append(f"{shape.name}: {f.status}: {f.info}")
                continue
            if f.status == "panic":
                ok, m = eng.check(f.pc)
                if ok:
                    fr_ok, fm = eng.check(f.pc + replay_friendly(pre, split_after))
                    results["violations"].append({"shape": shape.name, "clause": "panics: " + f.info, "pre": pre,
                                                  "values": model_values(fm if fr_ok else m, pre, extra)})
                continue
            rv = f.value
            if not z3.is_true(z3.simplify(rv.disc == BV(0, 64))):
                bad = error_violation(eng, f, rv, faults)
                if bad:
                    ok, m = eng.check(f.pc)
                    if ok:
                        results["violations"].append({"shape": shape.name, "clause": bad,
                                                      "pre": pre, "values": model_values(m, pre, extra)})
                continue
            n_ok += 1
            try:
                new_root, ret_items = rv.f[0].f[0], rv.f[0].f[1]
                post, _deleted = apply_tmp(eng, pre.store, f.env["tmp"])
                if not z3.is_bv_value(z3.simplify(new_root)):
                    ok, m = eng.check(f.pc)
                    if ok:
                        fr_ok, fm = eng.check(f.pc + replay_friendly(pre, split_after))
                        results["violations"].append({"shape": shape.name,
                                                      "clause": "the id returned as the new root of the tree is an item id, not the id of a tree node",
                                                      "pre": pre, "values": model_values(fm if fr_ok else m, pre, extra)})
                    continue
                v = check_inv(eng, f.pc, post, W.tree_id(new_root), remaining, remaining, "delete", tmp=f.env["tmp"])
                if v is None:
                    ok, m = eng.check(f.pc, ret_items != remaining)
                    if ok:
                        v = {"clause": "the returned item set differs from the items left under the node", "model": m,
                             "cond": ret_items != remaining}
                if v is None:
                    # [C15] constant capacity: if no bucket exceeded split_after before, none does afterwards
                    pre_ok = [z3.ULE(popcount(b, 64), split_after) for _, b in pre.bucket_vars]
                    for t, node in post.items():
                        if W.node_kind(node) == W.BUCKET:
                            cond = z3.And(pre_ok + [z3.UGT(popcount(W.bucket_bits(eng, node), 64), split_after)])
                            ok, m = eng.check(f.pc, cond)
                            if ok:
                                v = {"clause": f"deleting items leaves bucket {t} with more items than split_after although no bucket exceeded it before",
                                     "model": m, "cond": cond}
                                break
            except E.Unknown as e:
                results["unknown"].append(f"{shape.name}: {e}")
                continue
            if v is not None:
                m = v["model"]
                try:
                    fr_ok, fm = eng.check(f.pc + replay_friendly(pre, split_after), v.get("cond"))
                    if fr_ok:
                        m = fm
                except E.Unknown:
                    pass
                results["violations"].append({"shape": shape.name, "clause": v["clause"], "pre": pre,
                                              "values": model_values(m, pre, extra)})
        results["shapes"].append({"shape": shape.name, "paths": len(finals), "ok_paths": n_ok})
    results["queries"], results["solver_s"] = eng.queries, round(eng.solver_s, 2)
    results["encoded"] = sorted(E.short(n) for n in eng.encoded)
    return results


def delete_obligation(o, tier, seed):
    import e2
    import native
    from driver import Outcome
    try:
        ctx = e2.context(True)
    except RuntimeError as e:
        return [Outcome(o["id"], "mirsym", "inconclusive", str(e))]
    shapes = SHAPES_THOROUGH if tier == "thorough" else SHAPES_QUICK
    r = run_delete(ctx, shapes, time.time() + (2400 if tier == "thorough" else 600))
    return outcomes_from(o, r, "delete", native, e2, Outcome)


# ------------------------------------------------------------------------------------ delete_extra_trees / delete_tree
def run_delete_trees(ctx, shapes, deadline):
    """Forest = tree A (the shape, root id 0) + tree B (a single bucket with the same items, id 10).
    State in which build calls it: items deleted in the same batch are already gone from the store."""
    eng = make_engine(ctx)
    fn = find_fn(ctx.fns, r"writer::.*::delete_extra_trees$")
    results = {"paths": 0, "violations": [], "unknown": [], "shapes": []}
    for shape in shapes:
        pre = Pre(shape)
        gone = z3.BitVec("already_deleted_items", U)
        target = z3.BitVec("target_n_trees", 64)
        index = z3.BitVec("index", 16)
        pc = list(pre.cond) + [DIMS_OK, z3.ULE(target, 3)]
        store = dict(pre.store)
        store[10] = W.bucket(pre.items)
        root_t = z3.simplify(pre.root.f[1]).as_long()
        roots = W.mk_vec([BV(root_t, 32), BV(10, 32)])
        env = {"store": dict(store), "frozen": {}, "stored_items": pre.items & ~gone, "leafs": BV(0, U),
               "tmp": {"puts": [], "deleted": [], "remap": []}, "sides": []}
        roots_cell = Cell(roots)
        env["roots_cell"] = roots_cell
        args = [Ref(Cell(writer_value(index))), Ref(Cell(Opaque("RwTxn"))), Ref(Cell(options_value(BV(2, 64)))),
                Ref(roots_cell), target]
        finals = eng.run(fn, args, env=env, pc=pc, deadline=deadline)
        n_ok = 0
        for f in finals:
            if time.time() > deadline + 300:
                results["unknown"].append("post-processing of the enumerated paths: engine deadline reached")
                break
            results["paths"] += 1
            extra = [("set:already_deleted_items", gone), ("target_n_trees", target)]
            if f.status in ("unknown", "unwind"):
                results["unknown"].append(f"{shape.name}: {f.status}: {f.info}")
                continue
            if f.status == "panic":
                ok, m = eng.check(f.pc)
                if ok:
                    results["violations"].append({"shape": shape.name, "clause": "panics: " + f.info, "pre": pre,
                                                  "values": model_values(m, pre, extra)})
                continue
            rv = f.value
            if not z3.is_true(z3.simplify(rv.disc == BV(0, 64))):
                ok, m = eng.check(f.pc)
                if ok:
                    results["violations"].append({"shape": shape.name,
                                                  "clause": "deleting an extraneous tree fails (returns Err) although the store did not fail",
                                                  "pre": pre, "values": model_values(m, pre, extra)})
                continue
            n_ok += 1
            left = [z3.simplify(x).as_long() for x in f.env["roots_cell"].v.f["items"]]
            post = f.env["store"]
            tv = None
            okk, m = eng.check(f.pc)
            tval = m.eval(target, model_completion=True).as_long() if okk else 0
            want = min(2, tval)
            # which trees must survive: delete_extra_trees removes from the front (oldest first)
            problems = []
            if len(left) != want:
                problems.append(f"{len(left)} roots left for target {tval} (expected {want})")
            a_nodes = set(pre.store.keys())
            if root_t in left:
                if not a_nodes <= set(post):
                    problems.append("a node of a surviving tree was deleted")
            else:
                if a_nodes & set(post):
                    problems.append(f"nodes {sorted(a_nodes & set(post))} of a removed tree are left behind")
            if (10 in left) != (10 in post):
                problems.append("bucket tree: root list and store disagree")
            if problems and okk:
                results["violations"].append({"shape": shape.name, "clause": problems[0], "pre": pre,
                                              "values": model_values(m, pre, extra)})
        results["shapes"].append({"shape": shape.name, "paths": len(finals), "ok_paths": n_ok})
    results["queries"], results["solver_s"] = eng.queries, round(eng.solver_s, 2)
    results["encoded"] = sorted(E.short(n) for n in eng.encoded)
    return results


def delete_trees_obligation(o, tier, seed):
    import e2
    import native
    from driver import Outcome
    try:
        ctx = e2.context(True)
    except RuntimeError as e:
        return [Outcome(o["id"], "mirsym", "inconclusive", str(e))]
    shapes = SHAPES_THOROUGH if tier == "thorough" else SHAPES_QUICK
    r = run_delete_trees(ctx, shapes, time.time() + 900)
    return outcomes_from(o, r, "delete_trees", native, e2, Outcome)


# ------------------------------------------------------------------------------------ make_tree_in_file
def run_make_tree(ctx, max_items, deadline, abstract_imbalance=False, min_items=1):
    """make_tree_in_file over every item set S with 1 <= |S| <= max_items, all side decisions,
    zero/non-zero normals, split_after 1..=3.  randomly_split_children is replaced by its contract
    (L u R = S, disjoint) under a fairness assumption (both sides non-empty); its own MIR is
    checked separately against that contract.

    abstract_imbalance: split_imbalance(l, r) is replaced by its contract -- an arbitrary f64 in
    [0.5, 1] that exceeds 0.99 when one side is empty -- so that the retry loop and the
    "no usable hyperplane" fallback take, on 2..3 items, every branch combination that nodes of
    hundreds of items take (imbalance in [0.95, 0.99], in ]0.99, 1[ with both sides non-empty,
    better-then-worse attempts).  Every real (l, r) -> imbalance map satisfies the contract, hence
    an over-approximation of the real behaviours."""
    from mirsym.models import model, one, unit, bitmap_of
    eng = make_engine(ctx, max_depth=max_items + 1)

    def m_imbalance(e, st, callee, a, ty):
        l, r = a[0], a[1]
        v = e.fresh("imbalance", z3.Float64())
        f64 = z3.Float64()
        st.pc.append(z3.Not(z3.fpIsNaN(v)))
        st.pc.append(z3.fpGEQ(v, z3.FPVal(0.5, f64)))
        st.pc.append(z3.fpLEQ(v, z3.FPVal(1.0, f64)))
        st.pc.append(z3.Implies(z3.Or(l == BV(0, 64), r == BV(0, 64)), z3.fpGT(v, z3.FPVal(0.99, f64))))
        st.env.setdefault("assumptions", []).append(
            "split_imbalance replaced by its contract: any f64 in [0.5, 1], > 0.99 when a side is empty")
        return one(v)
    if abstract_imbalance:
        eng.models = [(re.compile(r"^split_imbalance$"), m_imbalance)] + eng.models

    def m_random_split(e, st, callee, a, ty):
        s = bitmap_of(e, a[1])
        left = e.fresh("rand_left", z3.BitVecSort(U))
        st.pc.append(left & ~s == BV(0, U))
        st.pc.append(left != BV(0, U))
        st.pc.append(left != s)
        e.store(a[2], left)
        e.store(a[3], s & ~left)
        st.env.setdefault("assumptions", []).append("fair RNG: a random split leaves both sides non-empty")
        return one(unit())
    eng.models = [(re.compile(r"^randomly_split_children::<R>$"), m_random_split)] + eng.models
    fn = find_fn(ctx.fns, r"writer::.*::make_tree_in_file$")
    results = {"paths": 0, "violations": [], "unknown": [], "shapes": []}
    items = z3.BitVec("item_set", U)
    split_after = z3.BitVec("split_after", 64)
    index = z3.BitVec("index", 16)
    used_tids = [0, 2]
    tag = " (abstract imbalance)" if abstract_imbalance else ""
    for n in range(min_items, max_items + 1):
        pc = [DIMS_OK, popcount(items, 8) == BV(n, 8), z3.UGE(split_after, 1), z3.ULE(split_after, 3)]
        ids = node_ids_value(eng, used_tids, pc)
        env = {"store": {}, "frozen": {}, "stored_items": items, "leafs": items,
               "tmp": {"puts": [], "deleted": [], "remap": []}, "sides": []}
        frozen = Agg("FrozzenReader", None, {0: Ref(Cell(Opaque("leafs"))), 1: Ref(Cell(Opaque("trees"))),
                                             2: Ref(Cell(ids))})
        args = [Ref(Cell(writer_value(index))), Ref(Cell(options_value(split_after))), Ref(Cell(frozen)),
                Ref(Cell(Opaque("rng"))), Ref(Cell(items)), Ref(Cell(Opaque("TmpNodes")))]
        finals = eng.run(fn, args, env=env, pc=pc, deadline=deadline, max_paths=20000)
        n_ok = 0
        for f in finals:
            if time.time() > deadline + 300:
                results["unknown"].append("post-processing of the enumerated paths: engine deadline reached")
                break
            results["paths"] += 1
            extra = [("set:item_set", items), ("split_after", split_after)]

            def viol(clause, m):
                d = {}
                for name, term in extra:
                    v = m.eval(term, model_completion=True).as_long()
                    d[name] = [i for i in range(U) if v >> i & 1] if name.startswith("set:") else v
                if abstract_imbalance:
                    d["abstract_imbalance"] = True
                results["violations"].append({"shape": f"|S|={n}{tag}", "clause": clause, "pre": None, "values": d})
            if f.status in ("unknown", "unwind"):
                results["unknown"].append(f"|S|={n}{tag}: {f.status}: {f.info}")
                continue
            if f.status == "panic":
                ok, m = eng.check(f.pc)
                if ok:
                    viol("panics: " + f.info, m)
                continue
            rv = f.value
            if not z3.is_true(z3.simplify(rv.disc == BV(0, 64))):
                ok, m = eng.check(f.pc)
                if ok:
                    viol("returns Err although nothing failed", m)
                continue
            n_ok += 1
            try:
                root, count = rv.f[0].f[0], rv.f[0].f[1]
                tmp = f.env["tmp"]
                post, _ = apply_tmp(eng, {}, tmp)
                put_ids = [z3.simplify(p).as_long() for p, _ in tmp["puts"]]
                v = None
                if len(set(put_ids)) != len(put_ids) or set(put_ids) & set(used_tids):
                    ok, m = eng.check(f.pc)
                    if ok:
                        v = {"clause": f"node ids {put_ids} are not fresh and distinct (used: {used_tids})", "model": m}
                if v is None:
                    v = check_inv(eng, f.pc, post, root, items, items, "make_tree")
                if v is None:
                    ok, m = eng.check(f.pc, count != BV(len(put_ids), 64))
                    if ok:
                        v = {"clause": "the returned node count differs from the number of nodes written", "model": m}
                if v is None:
                    # [C15] every bucket written fits the capacity
                    for t, node in post.items():
                        if W.node_kind(node) == W.BUCKET:
                            ok, m = eng.check(f.pc, z3.UGT(popcount(W.bucket_bits(eng, node), 64), split_after))
                            if ok:
                                v = {"clause": f"bucket {t} holds more items than split_after", "model": m}
                                break
                if v is None:
                    v = check_routing_new(eng, f, post)
            except E.Unknown as e:
                results["unknown"].append(f"|S|={n}: {e}")
                continue
            if v is not None:
                viol(v["clause"], v["model"])
        results["shapes"].append({"shape": f"|S|={n}{tag}", "paths": len(finals), "ok_paths": n_ok})
    results["queries"], results["solver_s"] = eng.queries, round(eng.solver_s, 2)
    results["encoded"] = sorted(E.short(n) for n in eng.encoded)
    return results


def run_random_split(ctx, deadline):
    """randomly_split_children from its MIR: L u R = S and L n R = 0 for every S with |S| <= 3."""
    eng = make_engine(ctx)
    fn = find_fn(ctx.fns, r"^randomly_split_children$")
    results = {"paths": 0, "violations": [], "unknown": [], "shapes": []}
    s = z3.BitVec("item_set", U)
    pc = [popcount(s, 8) <= BV(3, 8)]
    left, right = Cell(z3.BitVec("left_before", U)), Cell(z3.BitVec("right_before", U))
    env = {"cells": (left, right)}
    finals = eng.run(fn, [Ref(Cell(Opaque("rng"))), Ref(Cell(s)), Ref(left), Ref(right)], env=env, pc=pc,
                     deadline=deadline)
    for f in finals:
        if time.time() > deadline + 300:
            results["unknown"].append("post-processing of the enumerated paths: engine deadline reached")
            break
        results["paths"] += 1
        if f.status != "return":
            results["unknown" if f.status in ("unknown", "unwind") else "violations"].append(
                f"{f.status}: {f.info}" if f.status in ("unknown", "unwind") else
                {"shape": "S", "clause": "panics: " + f.info, "pre": None, "values": {}})
            continue
        l, r = f.env["cells"][0].v, f.env["cells"][1].v
        ok, m = eng.check(f.pc, z3.Or(l | r != s, l & r != BV(0, U)))
        if ok:
            results["violations"].append({"shape": "S", "clause": "random split is not a partition of the input",
                                          "pre": None, "values": {"S": m.eval(s, model_completion=True).as_long()}})
    results["shapes"].append({"shape": "|S|<=3", "paths": len(finals), "ok_paths": len(finals)})
    results["queries"], results["solver_s"] = eng.queries, round(eng.solver_s, 2)
    results["encoded"] = sorted(E.short(n) for n in eng.encoded)
    return results


def make_tree_obligation(o, tier, seed):
    import e2
    import native
    from driver import Outcome
    try:
        ctx = e2.context(True)
    except RuntimeError as e:
        return [Outcome(o["id"], "mirsym", "inconclusive", str(e))]
    n = 3 if tier == "thorough" else 2
    r = run_make_tree(ctx, n, time.time() + (3000 if tier == "thorough" else 600))
    r2 = run_random_split(ctx, time.time() + 300)
    for k in ("paths", "queries"):
        r[k] += r2[k]
    r["solver_s"] = round(r["solver_s"] + r2["solver_s"], 2)
    r["violations"] += r2["violations"]
    r["unknown"] += r2["unknown"]
    r["shapes"] += r2["shapes"]
    r["encoded"] = sorted(set(r["encoded"]) | set(r2["encoded"]))
    return outcomes_from(o, r, "make_tree", native, e2, Outcome)


def make_tree_abstract_obligation(o, tier, seed):
    """C04: make_tree_in_file with split_imbalance replaced by its contract (small-scope stand-in for
    nodes of hundreds of items: retried splits, the ]0.99, 1[ fallback with both sides non-empty)."""
    import e2
    import native
    from driver import Outcome
    try:
        ctx = e2.context(True)
    except RuntimeError as e:
        return [Outcome(o["id"], "mirsym", "inconclusive", str(e))]
    # thorough: |S| = 3 as well, under the time cap (the enumeration may be reported as truncated)
    r = run_make_tree(ctx, 3 if tier == "thorough" else 2, time.time() + (3000 if tier == "thorough" else 1500),
                      abstract_imbalance=True, min_items=2)
    return outcomes_from(o, r, "make_tree", native, e2, Outcome)


def skewed_scenarios(sa):
    """Native stand-ins for the abstract-imbalance counterexamples: nodes whose hyperplanes are all very
    imbalanced.  (a) 120 points packed on a ray + 1 outlier across the origin (imbalance in ]0.99, 1[),
    default capacity; (b) 194 almost collinear points + 6 outliers (imbalance in [0.95, 0.99], every
    attempt retried), one bucket-sized root; both followed by an incremental round."""
    import random
    out = []
    for seed in range(3):
        out += [f"=== ray+outlier seed {seed}", "dim 2"]
        for i in range(120):
            sc = 1.0 + i * 0.001
            out.append(f"add {i} {0.6 * sc:.6f},{0.8 * sc:.6f}")
        out.append("add 200 -0.6,-0.8")
        out += [f"build n_trees=3 seed={seed}", "expect_valid", "expect_routing"]
        for i in range(120, 140):
            sc = 1.0 + i * 0.001
            out.append(f"add {i} {0.6 * sc:.6f},{0.8 * sc:.6f}")
        out += ["del 5", f"build n_trees=3 seed={seed + 100}", "expect_valid", "expect_routing"]
    for seed in range(12):
        rnd = random.Random(seed)
        out += [f"=== cluster+outliers seed {seed}", "dim 2"]
        for i in range(194):
            out.append(f"add {i} {rnd.uniform(1.0, 2.0):.6f},{rnd.uniform(-0.001, 0.001):.7f}")
        for k, (x, y) in enumerate([(-1.0, 3.0), (-1.0, -3.0), (0.5, 5.0), (0.5, -5.0), (-2.0, 0.3), (-0.3, 4.0)]):
            out.append(f"add {194 + k} {x},{y}")
        out += [f"build n_trees=1 split_after=199 seed={seed}", "expect_valid", "expect_routing"]
    return "\n".join(out) + "\n"


def faults_obligation(o, tier, seed):
    """C10: the tree steps under a symbolic cancellation point and a symbolic temp-file fault."""
    import e2
    import native
    from driver import Outcome
    try:
        ctx = e2.context(True)
    except RuntimeError as e:
        return [Outcome(o["id"], "mirsym", "inconclusive", str(e))]
    shapes = SHAPES_QUICK if tier == "quick" else SHAPES_THOROUGH
    r = run_insert(ctx, shapes[:4] if tier == "quick" else shapes, 1 if tier == "quick" else 2,
                   time.time() + (900 if tier == "quick" else 2400), faults=True)
    r2 = run_delete(ctx, shapes, time.time() + 900, faults=True)
    for k in ("paths", "queries"):
        r[k] += r2[k]
    r["solver_s"] = round(r["solver_s"] + r2["solver_s"], 2)
    for k in ("violations", "unknown", "shapes"):
        r[k] += r2[k]
    r["encoded"] = sorted(set(r["encoded"]) | set(r2["encoded"]))
    return outcomes_from(o, r, "faults", native, e2, Outcome)


# ------------------------------------------------------------------------------------ split_imbalance (C20)
def run_split_imbalance(ctx, deadline):
    """split_imbalance(l, r) from its MIR (f64 arithmetic as z3 FP terms): never NaN, in [0.5, 1],
    including l = r = 0 (the 0/0 guard)."""
    eng = make_engine(ctx)
    eng.solver.set("timeout", 240000)
    fn = find_fn(ctx.fns, r"^split_imbalance$")
    res = {"paths": 0, "violations": [], "unknown": [], "shapes": []}
    l, r = z3.BitVec("left_len", 64), z3.BitVec("right_len", 64)
    pc = [z3.ULE(l, BV(255, 64)), z3.ULE(r, BV(255, 64))]
    finals = eng.run(fn, [l, r], env={}, pc=pc, deadline=deadline)
    for f in finals:
        if time.time() > deadline + 300:
            results["unknown"].append("post-processing of the enumerated paths: engine deadline reached")
            break
        res["paths"] += 1
        if f.status != "return":
            (res["unknown"] if f.status in ("unknown", "unwind") else res["violations"]).append(
                f"{f.status}: {f.info}" if f.status in ("unknown", "unwind") else
                {"shape": "any", "clause": "panics: " + f.info, "pre": None, "values": {}})
            continue
        v = f.value
        half = z3.FPVal(0.5, z3.Float64())
        one_ = z3.FPVal(1.0, z3.Float64())
        try:
            ok, m = eng.check(f.pc, z3.Or(z3.fpIsNaN(v), z3.fpLT(v, half), z3.fpGT(v, one_)))
        except E.Unknown as e:
            res["unknown"].append(str(e))
            continue
        if ok:
            res["violations"].append({"shape": "any", "clause": "split_imbalance is NaN or outside [0.5, 1]", "pre": None,
                                      "values": {"left": m.eval(l, model_completion=True).as_long(),
                                                 "right": m.eval(r, model_completion=True).as_long(),
                                                 "result": str(m.eval(v, model_completion=True))}})
    res["shapes"].append({"shape": "all (l, r) <= 255", "paths": len(finals), "ok_paths": len(finals)})
    res["queries"], res["solver_s"] = eng.queries, round(eng.solver_s, 2)
    res["encoded"] = sorted(E.short(n) for n in eng.encoded)
    return res


def split_imbalance_obligation(o, tier, seed):
    import e2
    import native
    from driver import Outcome
    try:
        ctx = e2.context(True)
    except RuntimeError as e:
        return [Outcome(o["id"], "mirsym", "inconclusive", str(e))]
    r = run_split_imbalance(ctx, time.time() + 600)
    return outcomes_from(o, r, "none", native, e2, Outcome)
