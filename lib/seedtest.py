"""Confirm a seeded mutation (patch + demo) in a scratch worktree and run the checks against it.
usage: seedtest.py <seed-dir> <seed-id> <property> [more properties...]
Writes /verif/seeded/<seed-id>/{patch.diff,demo.rs,NOTES.md,meta.json}."""
import json, os, re, shutil, subprocess, sys, time

VERIF = "/verif"
BASE = os.environ.get("SEEDCHK_DIR", "/tmp/seedchk")
WT = BASE + "/wt"
TARGET = BASE + "/target"


def sh(cmd, cwd=None, env=None, timeout=3600):
    e = dict(os.environ); e["CARGO_NET_OFFLINE"] = "true"; e["CARGO_TARGET_DIR"] = TARGET
    if env: e.update(env)
    p = subprocess.run(cmd, cwd=cwd, env=e, shell=isinstance(cmd, str), stdout=subprocess.PIPE, stderr=subprocess.STDOUT, text=True, timeout=timeout)
    return p.returncode, p.stdout


def fresh_wt():
    if os.path.exists(WT):
        sh(["git", "-C", "/repo", "worktree", "remove", "--force", WT])
    os.makedirs(os.path.dirname(WT), exist_ok=True)
    rc, out = sh(["git", "-C", "/repo", "worktree", "add", "--detach", WT, "HEAD"])
    assert rc == 0, out


def apply_patch(patch):
    for cmd in (["git", "apply", patch], ["git", "apply", "-3", patch], ["patch", "-p1", "--fuzz=3", "-i", patch]):
        rc, out = sh(cmd, cwd=WT)
        if rc == 0:
            return True, " ".join(cmd[:3])
        sh(["git", "checkout", "--", "."], cwd=WT)
    return False, out[-400:]


def tests(filter_=None):
    cmd = ["cargo", "test", "--offline", "--lib"] + ([filter_] if filter_ else [])
    rc, out = sh(cmd, cwd=WT)
    m = re.search(r"test result: (\w+)\. (\d+) passed; (\d+) failed", out)
    return rc, (m.groups() if m else None), out[-1500:]


def main():
    seed_dir, sid, props = sys.argv[1], sys.argv[2], sys.argv[3:]
    out_dir = os.path.join(VERIF, "seeded", sid)
    mp = os.path.join(out_dir, "meta.json")
    if os.path.exists(mp) and not os.environ.get("SEED_FORCE"):
        print("skip (already done or in progress)", sid)
        return
    first_round = None
    if os.path.exists(mp):
        old = json.load(open(mp))
        first_round = old.get("first_round") or ({"checks": old.get("checks"), "detected_by": old.get("detected_by")} if old.get("checks") else None)
    os.makedirs(out_dir, exist_ok=True)
    json.dump({"id": sid, "in_progress": True}, open(mp, "w"))
    for f in ("patch.diff", "demo.rs", "NOTES.md"):
        if os.path.exists(os.path.join(seed_dir, f)):
            shutil.copy(os.path.join(seed_dir, f), os.path.join(out_dir, f))
    meta = {"id": sid, "breaks_property": props[0], "ran": [], "source": "independent sub-agent (given only the property text and a scratch worktree)"}
    if first_round:
        meta["first_round"] = first_round
    notes = open(os.path.join(out_dir, "NOTES.md")).read() if os.path.exists(os.path.join(out_dir, "NOTES.md")) else ""
    meta["needs_to_manifest"] = notes[:1200]
    fresh_wt()
    try:
        ok, how = apply_patch(os.path.join(out_dir, "patch.diff"))
        meta["patch_applies"] = ok
        meta["ran"].append(f"git apply patch.diff in a scratch worktree of /repo HEAD -> {'ok (' + how + ')' if ok else 'FAILED: ' + how}")
        if not ok:
            meta["confirmed"] = False
            return finish(out_dir, meta)
        # refresh the stored patch against the current HEAD (context may have moved because of fixes)
        rc, diff = sh("git diff -- src ':!src/tests'", cwd=WT)
        open(os.path.join(out_dir, "patch.diff"), "w").write(diff)
        rc, res, tail = tests()
        meta["suite_with_mutation"] = res
        meta["ran"].append(f"cargo test --offline --lib with the mutation -> {res}")
        suite_ok = rc == 0 and res and res[0] == "ok" and int(res[1]) >= 57
        # demo
        demo_mod = "seed_demo_" + sid.replace("-", "_").lower()
        shutil.copy(os.path.join(out_dir, "demo.rs"), os.path.join(WT, "src", "tests", demo_mod + ".rs"))
        with open(os.path.join(WT, "src", "tests", "mod.rs"), "a") as f:
            f.write(f"\nmod {demo_mod};\n")
        rc1, res1, tail1 = tests(demo_mod)
        meta["demo_with_mutation"] = res1
        meta["ran"].append(f"cargo test --offline --lib {demo_mod} with the mutation -> {res1}")
        demo_fails = rc1 != 0 and res1 is not None and int(res1[2]) > 0
        if res1 is None:
            meta["demo_tail"] = tail1[-600:]
        # without the mutation
        sh(f"git apply -R {out_dir}/patch.diff", cwd=WT)
        rc2, res2, tail2 = tests(demo_mod)
        meta["demo_without_mutation"] = res2
        meta["ran"].append(f"same demo on the unmodified code -> {res2}")
        demo_passes = rc2 == 0 and res2 and int(res2[2]) == 0 and int(res2[1]) > 0
        meta["confirmed"] = bool(suite_ok and demo_fails and demo_passes)
        # run the checks against the mutated tree (a worktree, never /repo itself)
        sh(["git", "checkout", "--", "."], cwd=WT)
        sh(["git", "clean", "-fdq"], cwd=WT)
        sh(["git", "apply", os.path.join(out_dir, "patch.diff")], cwd=WT)
        meta["checks"] = {}
        for p in props:
            t0 = time.time()
            env = {"VERIF_REPO": WT, "VERIF_EVIDENCE_DIR": BASE + "/evidence", "VERIF_REPLAY_DIR": BASE + "/replays/" + sid,
                   "VERIF_JOBS": os.environ.get("VERIF_JOBS", "8")}
            e = dict(os.environ); e.update(env)
            pr = subprocess.run([os.path.join(VERIF, "check"), p, "--tier", "quick"], cwd=VERIF, env=e, stdout=subprocess.PIPE, stderr=subprocess.PIPE, text=True, timeout=7200)
            lines = [l[:300] for l in pr.stdout.splitlines() if l.startswith(("VIOLATION", "INCONCLUSIVE", "OK", "KNOWN"))]
            meta["checks"][p] = {"exit": pr.returncode, "lines": lines[:6], "wall_s": round(time.time() - t0)}
            meta["ran"].append(f"VERIF_REPO=<mutated worktree> ./check {p} --tier quick -> exit {pr.returncode}")
        meta["detected_by"] = [p for p, r in meta["checks"].items() if r["exit"] == 1]
    finally:
        finish(out_dir, meta)
        sh(["git", "-C", "/repo", "worktree", "remove", "--force", WT])


def finish(out_dir, meta):
    json.dump(meta, open(os.path.join(out_dir, "meta.json"), "w"), indent=1)
    print(json.dumps({k: meta.get(k) for k in ("id", "confirmed", "detected_by", "patch_applies")}))


if __name__ == "__main__":
    main()
