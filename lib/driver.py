"""Driver: runs the obligations of one property, replays counterexamples, writes evidence."""
import argparse
import hashlib
import json
import os
import random
import re
import shutil
import sys
import time

sys.path.insert(0, os.path.dirname(os.path.abspath(__file__)))

import kani as kani_engine  # noqa: E402
from common import (EVIDENCE, EXIT_INCONCLUSIVE, EXIT_OK, EXIT_VIOLATION, REPO, VERIF,  # noqa: E402
                    load_known_findings, log, run)

REPLAYS = os.environ.get("VERIF_REPLAY_DIR") or os.path.join(VERIF, "replays")


class Outcome:
    """Result of one obligation (one solver-decided statement)."""

    def __init__(self, oid, engine, status, reason="", queries=0, solver_s=0.0, nontrivial=False,
                 sample=None, detail=None, clause=None, site=None, replayed=None, replay_path=None, cases=None):
        self.oid, self.engine, self.status, self.reason = oid, engine, status, reason
        self.queries, self.solver_s, self.nontrivial = queries, solver_s, nontrivial
        self.sample, self.detail = sample, detail or {}
        self.clause, self.site = clause, site
        self.replayed, self.replay_path = replayed, replay_path
        # distinct non-trivial cases behind this obligation: satisfied reachability witnesses (Kani) or
        # distinct feasible paths (MIR executor)
        if cases is None:
            cases = (sample or {}).get("paths") if isinstance(sample, dict) else None
        self.cases = cases if cases is not None else (1 if nontrivial else 0)


def tree_fingerprint():
    h = hashlib.sha256()
    for root, dirs, files in os.walk(os.path.join(REPO, "src")):
        dirs.sort()
        for f in sorted(files):
            p = os.path.join(root, f)
            h.update(p.encode())
            with open(p, "rb") as fh:
                h.update(fh.read())
    return h.hexdigest()[:16]


def matches_finding(finding, prop, outcome):
    if finding.get("property") != prop:
        return False
    if finding.get("obligation") and finding["obligation"] != outcome.oid:
        return False
    pat = finding.get("clause_regex")
    if pat and not re.search(pat, (outcome.reason or "") + " " + (outcome.clause or "")):
        return False
    return True


def run_kani_group(prop, obls, tier, seed, jobs):
    """All Kani obligations of a property share one scratch copy and one cargo-kani run."""
    outs = []
    if not obls:
        return outs, {}
    files = []
    for o in obls:
        for f in o["files"]:
            if f not in files:
                files.append(f)
    names = [o["id"] for o in obls]
    by_id = {o["id"]: o for o in obls}
    order = list(names)
    random.Random(seed).shuffle(order)
    meta = {}
    s = kani_engine.prepare_scratch(prop.lower(), files)
    try:
        meta["cuts"] = list(s.cuts)
        if s.missing:
            for o in obls:
                outs.append(Outcome(o["id"], "kani", "inconclusive",
                                    "scratch patch pattern missing: " + "; ".join(s.missing)))
            return outs, meta
        tmo = max(o.get("timeout", 600) for o in obls)
        batch = [n for n in order if not by_id[n].get("unwindset")]
        special = [n for n in order if by_id[n].get("unwindset")]
        res = {}
        t_k = time.time()
        if batch:
            res, raw, dt = kani_engine.run_harnesses(s, batch, jobs=jobs, harness_timeout=tmo)
        if special:
            # per-loop bounds (selected by function name at run time): one cargo-kani run each
            from concurrent.futures import ThreadPoolExecutor
            def one(n):
                r, sel = kani_engine.run_with_unwindset(s, n, by_id[n]["unwindset"],
                                                        harness_timeout=by_id[n].get("timeout", 900))
                return n, r, sel
            with ThreadPoolExecutor(max_workers=max(1, min(jobs // 2, len(special)))) as ex:
                for n, r, sel in ex.map(one, special):
                    res[n] = r
                    meta.setdefault("unwindsets", {})[n] = sel
        meta["kani_wall_s"] = round(time.time() - t_k, 1)
        for o in obls:
            r = res[o["id"]]
            need_stub = "alloc::fmt::format" if o.get("needs_format_stub", True) else None
            if r.status == "holds" and need_stub and not any(need_stub in x for x in r.stubs):
                # stubs are part of the claim; a missing one means the harness ran unstubbed
                pass
            out = Outcome(o["id"], "kani", r.status, r.reason, queries=r.checks,
                          solver_s=r.time_s, nontrivial=(r.status == "holds" and r.covers_total > 0),
                          cases=r.covers_sat,
                          sample={"obligation": o["id"], "statement": o["what"], "bounds": o["bounds"],
                                  "checks": r.checks, "reachability_witnesses":
                                      f"{r.covers_sat}/{r.covers_total}", "cbmc_s": r.time_s},
                          detail=r.as_dict(), clause=o.get("clause"), site=o.get("site"))
            if r.status == "fails":
                # one more CBMC run with --concrete-playback=inplace, then the generated unit test is
                # executed natively (dev profile) with `cargo kani playback`
                native = kani_engine.native_playback(s, o["id"], max(3 * tmo, 1800))
                test = native.get("test_source") if native else None
                os.makedirs(os.path.join(REPLAYS, prop), exist_ok=True)
                rp = os.path.join(REPLAYS, prop, o["id"] + ".json")
                with open(rp, "w") as f:
                    json.dump({"property": prop, "obligation": o["id"], "engine": "kani",
                               "statement": o["what"], "failed_checks": r.failed_checks,
                               "concrete_playback_test": test,
                               "native_playback": native,
                               "how_to_rerun": f"./check {prop} --replay {rp}"}, f, indent=1)
                out.replay_path = rp
                if test is None:
                    out.status = "inconclusive"
                    out.reason = "counterexample without concrete playback values: " + r.reason
                elif native is not None and native.get("reproduced") is False:
                    out.status = "inconclusive"
                    out.reason = ("counterexample did not reproduce natively (encoding/model defect): "
                                  + r.reason)
                else:
                    out.replayed = bool(native and native.get("reproduced"))
            outs.append(out)
        if os.environ.get("VERIF_KEEP_LOG"):
            shutil.copy(os.path.join(s.dir, "kani.log"), os.path.join(VERIF, f".last_kani_{prop}.log"))
    finally:
        s.close()
    return outs, meta


def write_evidence(prop, tier, seed, outs, wall, meta, level="model_checking"):
    os.makedirs(EVIDENCE, exist_ok=True)
    held = [o for o in outs if o.status == "holds"]
    samples = [o.sample for o in outs if o.sample][:40]
    if not samples:
        samples = [{"obligation": o.oid, "status": o.status, "reason": o.reason} for o in outs][:10]
    ev = {
        "property_id": prop,
        "tier": tier,
        "seed": seed,
        "level": level,
        "coverage": {
            "evaluations": sum(max(1, o.queries) for o in outs),
            "distinct_nontrivial": sum(int(o.cases or 0) for o in held if o.nontrivial),
            "rule": ("one case = one solver-decided obligation (a Kani/CBMC harness over symbolic inputs, "
                     "or one path/assertion query of the MIR symbolic executor); evaluations = solver "
                     "checks discharged (CBMC properties + SMT queries); distinct_nontrivial = number of "
                     "distinct non-vacuous cases behind the obligations that held: kani::cover reachability "
                     "witnesses found SATISFIED by CBMC, plus distinct feasible paths (satisfiable path "
                     "conditions) enumerated by the MIR executor; a harness whose witnesses are not all "
                     "satisfied is reported inconclusive and contributes nothing"),
            "samples": samples,
            "obligations": len(outs),
            "discharged": len(held),
            "inconclusive": [o.oid + ": " + o.reason for o in outs if o.status == "inconclusive"],
            "exhaustive": False,
            "functions_encoded": meta.get("functions_encoded", []),
            "bounds": meta.get("bounds", {}),
            "stubs_and_models": meta.get("stubs_and_models", []),
            "cuts": meta.get("cuts", []),
            "solver_time_s": round(sum(o.solver_s for o in outs), 2),
            "unwinding_assertions": "on (Kani default; a too-small bound is reported, never truncated)",
            "outside_claim": meta.get("outside_claim", []),
            "composition": "one-step obligations compose by a paper argument; machine-checked only for the short build histories listed in the samples",
            "tree_fingerprint": tree_fingerprint(),
            "engines": sorted(set(o.engine for o in outs)),
        },
        "assumptions": meta.get("assumptions", []),
        "wall_s": round(wall, 1),
        "violations": sum(1 for o in outs if o.status == "fails"),
    }
    ev["coverage"]["known_findings_reported"] = meta.get("known_reported", [])
    with open(os.path.join(EVIDENCE, prop + ".json"), "w") as f:
        json.dump(ev, f, indent=1)


def _run_one_mirsym(o, tier, seed):
    try:
        return o["run"](dict(o, _tier=tier), tier, seed)
    except Exception as e:  # engine defect => inconclusive, never success
        import traceback
        traceback.print_exc()
        return [Outcome(o["id"], o["engine"], "inconclusive", f"engine error: {e!r}")]


def run_mirsym_group(m_obls, tier, seed, jobs):
    """The E2 obligations of a property are independent single-threaded computations: each runs in a
    forked child that hands its outcomes back through a pickle file (sequentially when there is one
    obligation, when forking or pickling fails, or with VERIF_E2_SEQUENTIAL=1)."""
    import pickle
    import tempfile
    if len(m_obls) <= 1 or os.environ.get("VERIF_E2_SEQUENTIAL") == "1":
        outs = []
        for o in m_obls:
            outs += _run_one_mirsym(o, tier, seed)
        return outs
    # the MIR dump is shared: produce it once in the parent so that the children inherit the cache
    try:
        import e2
        e2.context(True)
    except Exception:
        pass
    width = max(1, min(len(m_obls), jobs))
    pending = list(m_obls)
    running = {}
    results = {}
    tmpdir = tempfile.mkdtemp(prefix="arroy-verif-e2out-")
    sys.stdout.flush()
    sys.stderr.flush()
    while pending or running:
        while pending and len(running) < width:
            o = pending.pop(0)
            path = os.path.join(tmpdir, o["id"] + ".pkl")
            pid = os.fork()
            if pid == 0:
                code = 0
                try:
                    res = _run_one_mirsym(o, tier, seed)
                    with open(path, "wb") as f:
                        pickle.dump(res, f)
                except BaseException:       # noqa: BLE001
                    import traceback
                    traceback.print_exc()
                    code = 3
                finally:
                    sys.stdout.flush()
                    sys.stderr.flush()
                    os._exit(code)
            running[pid] = (o, path)
        pid, status = os.wait()
        if pid not in running:
            continue
        o, path = running.pop(pid)
        try:
            with open(path, "rb") as f:
                results[o["id"]] = pickle.load(f)
        except Exception as e:      # noqa: BLE001
            results[o["id"]] = [Outcome(o["id"], o["engine"], "inconclusive",
                                        f"engine error: the obligation's process ended without a result (status {status}): {e!r}")]
    import shutil
    shutil.rmtree(tmpdir, ignore_errors=True)
    outs = []
    for o in m_obls:
        outs += results[o["id"]]
    return outs


def main(argv=None):
    import registry
    ap = argparse.ArgumentParser()
    ap.add_argument("prop")
    ap.add_argument("--tier", default=os.environ.get("VERIF_TIER", "quick"))
    ap.add_argument("--replay")
    ap.add_argument("--only", help="comma-separated obligation ids (debugging)")
    ap.add_argument("--jobs", type=int, default=int(os.environ.get("VERIF_JOBS", "12")))
    a = ap.parse_args(argv)
    prop = a.prop.upper()
    tier = a.tier if a.tier in ("quick", "thorough") else "quick"
    seed = int(os.environ.get("VERIF_SEED", "0") or 0)
    if a.replay:
        import replay
        return replay.main(prop, a.replay)
    if prop not in registry.PROPS:
        log(f"unknown or not-applicable property {prop}")
        return EXIT_INCONCLUSIVE
    t0 = time.time()
    obls = registry.obligations(prop, tier)
    if a.only:
        keep = set(a.only.split(","))
        obls = [o for o in obls if o["id"] in keep]
    outs, meta = [], dict(registry.PROPS[prop].get("meta", {}))
    k_obls = [o for o in obls if o["engine"] == "kani"]
    m_obls = [o for o in obls if o["engine"] != "kani"]
    ko, kmeta = run_kani_group(prop, k_obls, tier, seed, a.jobs)
    outs += ko
    meta.setdefault("cuts", [])
    meta["cuts"] = kmeta.get("cuts", []) + meta["cuts"]
    outs += run_mirsym_group(m_obls, tier, seed, a.jobs)
    # ---- verdicts ----------------------------------------------------------------------
    kf = load_known_findings()
    known_lines, violations, incon = [], [], []
    for o in outs:
        if o.status == "fails":
            f = next((f for f in kf.get("known", []) if matches_finding(f, prop, o)), None)
            if f:
                known_lines.append(f"KNOWN-FINDING: property={prop} {f['what']}")
            else:
                violations.append(o)
        elif o.status == "inconclusive":
            incon.append(o)
    meta["known_reported"] = known_lines
    if not a.only:
        write_evidence(prop, tier, seed, outs, time.time() - t0, meta)
    seen_reasons = set()
    for o in outs:
        why = "" if o.status == "holds" else o.reason[:240]
        if why in seen_reasons and len(why) > 80:
            why = "(same reason as above)"
        seen_reasons.add(why)
        log(f"  [{o.status:12}] {o.oid} ({o.engine}, {o.solver_s:.1f}s, {o.queries} queries) {why}")
    for l in sorted(set(known_lines)):
        print(l)
    if violations:
        for o in violations:
            print(f"VIOLATION property={prop} replay={o.replay_path} obligation={o.oid} {o.reason}")
        return EXIT_VIOLATION
    if incon:
        print(f"INCONCLUSIVE property={prop} obligations={','.join(o.oid for o in incon)}: {incon[0].reason[:300]}")
        return EXIT_INCONCLUSIVE
    print(f"OK property={prop} tier={tier} obligations={len(outs)} wall={time.time() - t0:.0f}s")
    return EXIT_OK


if __name__ == "__main__":
    sys.exit(main())
