"""E2 obligation on `DotProduct::preprocess` (C05: "building never changes" the stored vectors; the
in-place header rewrite at build time): the function is executed from its MIR over the key-value world
with three DotProduct leaves whose squared norms are symbolic f32 values (any bit pattern).  Afterwards
every item key of the index still holds a leaf with the *same vector object*, the header is
(extra_dim = sqrt(M^2 - n^2), norm = M^2) with M the running f32::max of the norms from 0.0 (f32
operations uninterpreted: the check is term equality modulo congruence), and no other key of the
database was touched.  The closure `new_iter` is the environment: it yields a
cursor over exactly the item keys of the index (that is what Writer::build passes)."""
import re
import time

import z3

from mirsym import engine as E
from mirsym import models as M
from mirsym.engine import BV, Agg, Cell, Opaque, Ref
from mirsym.mir import find_fn
from mirsym.models import mk_ok, one

import e2_metric
import e2_tree
from e2_metric import IDX, ITEM, META, TREE, UPD, kv_models, new_cursor

F32 = z3.Float32()
RM = z3.RNE()
SQNORM = z3.Function("dot_product_self", z3.IntSort(), F32)

# f32 arithmetic is kept uninterpreted (congruence is all the contract needs, and z3's FP theory does
# not decide sqrt/mul chains over symbolic operands in useful time); comparisons stay FP predicates
FMUL = z3.Function("f32_mul", F32, F32, F32)
FSUB = z3.Function("f32_sub", F32, F32, F32)
FADD = z3.Function("f32_add", F32, F32, F32)
FDIV = z3.Function("f32_div", F32, F32, F32)
FSQRT = z3.Function("f32_sqrt", F32, F32)
FMAX = z3.Function("f32_max", F32, F32, F32)


class DotEngine(E.Engine):
    def binop(self, op, a, b, ty):
        if z3.is_fp(a) and z3.is_fp(b) and op in ("Mul", "Sub", "Add", "Div"):
            return {"Mul": FMUL, "Sub": FSUB, "Add": FADD, "Div": FDIV}[op](a, b)
        return super().binop(op, a, b, ty)


INLINE = e2_metric.INLINE + [
    (re.compile(r"^Node::<'_, DotProduct>::leaf$"), r"node::.*::leaf$"),
    (re.compile(r"^Leaf::<'_, DotProduct>::into_owned$"), r"node::.*::into_owned$"),
    (re.compile(r"^<DotProduct as Distance>::norm_no_header$"), r"dot_product::.*::norm_no_header$"),
]


def models():
    ms = []

    def reg(pat):
        def deco(f):
            ms.append((re.compile(pat), f))
            return f
        return deco

    @reg(r"^<impl for<'a> Fn\(&'a mut RwTxn\) -> heed::Result<RwPrefix<'a, KeyCodec, NodeCodec<Self>>> as Fn<")
    def _(eng, st, callee, a, ty):
        st.env["iters"] = st.env.get("iters", 0) + 1
        return one(mk_ok(Opaque("Cursor", {"index": IDX, "mode": ITEM, "id": new_cursor(st)})))

    @reg(r"^<RwPrefix<'_, .*> as IntoIterator>::into_iter$")
    def _(eng, st, callee, a, ty):
        return one(a[0])

    @reg(r"^(spaces::simple::)?dot_product$")
    def _(eng, st, callee, a, ty):
        p, q = eng.deref(a[0]), eng.deref(a[1])
        while isinstance(p, Ref):
            p = eng.deref(p)
        while isinstance(q, Ref):
            q = eng.deref(q)
        if p is not q:
            raise E.Unknown("dot product of two different vectors in preprocess")
        return one(SQNORM(z3.IntVal(p.data["vid"])))

    @reg(r"^std::f32::<impl f32>::sqrt$|^core::f32::<impl f32>::sqrt$")
    def _(eng, st, callee, a, ty):
        return one(FSQRT(a[0]))

    @reg(r"^core::f32::<impl f32>::max$")
    def _(eng, st, callee, a, ty):
        return one(FMAX(a[0], a[1]))

    @reg(r"^<Cow<'_, UnalignedVector<f32>> as Deref>::deref$")
    def _(eng, st, callee, a, ty):
        cow = eng.deref(a[0])
        return one(Ref(Cell(cow.f[0])))

    @reg(r"^Cow::<'_, UnalignedVector<f32>>::into_owned$")
    def _(eng, st, callee, a, ty):
        return one(a[0].f[0])

    return ms


def leaf(vid):
    hdr = Agg("NodeHeaderDotProduct", None, {0: z3.FP(f"old_extra_dim{vid}", F32), 1: z3.FP(f"old_norm{vid}", F32)})
    return Agg("Node", BV(0, 64), {0: Agg("Leaf", None, {0: hdr, 1: Agg("Cow", BV(0, 64), {0: Opaque("vector", {"vid": vid})})})})


def run_preprocess(ctx, deadline):
    res = {"paths": 0, "violations": [], "unknown": [], "shapes": []}
    eng = DotEngine(ctx.fns, ctx.structs, ctx.enums, models() + kv_models("f32", "f32", False) + list(M.REGISTRY),
                   INLINE, max_depth=3, max_steps=6000)
    fn = find_fn(ctx.fns, r"dot_product::.*::preprocess$")
    for ids in ([3], [1, 5, 0xFFFFFFFF], []):
        label = f"DotProduct::preprocess over items {ids}"
        kv = {(IDX, META, 0): Opaque("metadata"), (IDX, UPD, 5): Opaque("mark"), (IDX, TREE, 0): e2_metric.tree_node(0),
              (IDX - 1, ITEM, 1): leaf(100), (IDX - 1, TREE, 9): e2_metric.tree_node("n"), (IDX + 1, ITEM, 1): leaf(101),
              (IDX + 1, META, 0): Opaque("metadata")}
        for k, i in enumerate(ids):
            kv[(IDX, ITEM, i)] = leaf(k)
        before = dict(kv)
        finals = eng.run(fn, [Ref(Cell(Opaque("RwTxn"))), Opaque("new_iter")], env={"kv": kv, "log": []}, pc=[],
                         deadline=deadline)
        for f in finals:
            res["paths"] += 1

            def viol(clause, m):
                vals = {"items": ids}
                for k in range(len(ids)):
                    vals[f"squared_norm[{ids[k]}]"] = str(m.eval(SQNORM(z3.IntVal(k)), model_completion=True))
                res["violations"].append({"shape": label, "clause": clause, "pre": None, "values": vals})
            if f.status in ("unknown", "unwind"):
                res["unknown"].append(f"{label}: {f.status}: {f.info}")
                continue
            if f.status == "panic":
                ok, m = eng.check(f.pc)
                if ok:
                    viol("panics: " + f.info, m)
                continue
            ok, m = eng.check(f.pc)
            if not ok:
                continue
            if not z3.is_true(z3.simplify(f.value.disc == BV(0, 64))):
                viol("returns an error on a healthy database", m)
                continue
            after = f.env["kv"]
            bad = None
            if set(after) != set(before):
                bad = f"the key set changed: {sorted(set(after) ^ set(before))}"
            for k in before:
                if bad:
                    break
                if k[0] == IDX and k[1] == ITEM:
                    continue
                if not e2_metric.same(after[k], before[k]):
                    bad = f"entry {k} (not an item of the index) was rewritten"
            # the running maximum of the norms, as the code documents it
            mx = z3.FPVal(0.0, F32)
            norms = []
            for k in range(len(ids)):
                n = FSQRT(SQNORM(z3.IntVal(k)))
                norms.append(n)
                mx = FMAX(mx, n)
            m2 = FMUL(mx, mx)
            for k, i in enumerate(ids):
                if bad:
                    break
                v = after[(IDX, ITEM, i)]
                try:
                    lf = v.f[0]
                    vec = lf.f[1].f[0] if isinstance(lf.f[1], Agg) else lf.f[1]
                    hdr = lf.f[0]
                    same_vec = isinstance(vec, Opaque) and vec.data.get("vid") == k
                except Exception:
                    bad = f"item {i} no longer holds a leaf"
                    break
                if not z3.is_true(z3.simplify(v.disc == BV(0, 64))) or not same_vec:
                    bad = f"the vector of item {i} was changed by the preprocessing"
                    break
                want_extra = FSQRT(FSUB(m2, FMUL(norms[k], norms[k])))
                differs = z3.Or(z3.Not(fp_same(hdr.f[1], m2)), z3.Not(fp_same(hdr.f[0], want_extra)))
                ok2, m_ = eng.check(f.pc, differs)
                if ok2:
                    viol(f"the header of item {i} is not (extra_dim = sqrt(max_norm^2 - norm^2), norm = max_norm^2)", m_)
                    bad = ""
            if bad:
                viol(bad, m)
        res["shapes"].append({"shape": label, "paths": len(finals), "ok_paths": len(finals)})
    res["queries"], res["solver_s"] = eng.queries, round(eng.solver_s, 2)
    res["encoded"] = sorted(E.short(x) for x in eng.encoded)
    return res


def fp_same(a, b):
    """bitwise-or-NaN equality of two f32 terms"""
    return z3.Or(z3.fpEQ(a, b), z3.And(z3.fpIsNaN(a), z3.fpIsNaN(b)))


def obligation(o, tier, seed):
    import e2
    import native
    from driver import Outcome
    try:
        ctx = e2.context(True)
    except RuntimeError as e:
        return [Outcome(o["id"], "mirsym", "inconclusive", str(e))]
    r = run_preprocess(ctx, time.time() + 600)
    return e2_tree.outcomes_from(o, r, "dot_preprocess", native, e2, Outcome)


def scenario(v):
    return "dot_preprocess\n"


# ----------------------------------------------------------------------------------------------
# Cosine::built_distance against its documented definition (C11)
CLAMP = z3.Function("f32_clamp", F32, F32, F32, F32)
EPS32 = z3.FPVal(2.0 ** -23, F32)


def run_cosine(ctx, deadline):
    """`Cosine::built_distance` from MIR with the stored norms and the dot product symbolic and the
    f32 operations uninterpreted: on every path the result is the term
    (1 - clamp(pq / (pn*qn), -1, 1)) / 2 when pn*qn > f32::EPSILON and 0.0 otherwise."""
    res = {"paths": 0, "violations": [], "unknown": [], "shapes": []}
    pq, pn, qn = z3.FP("dot_product_pq", F32), z3.FP("norm_p", F32), z3.FP("norm_q", F32)
    ms = []

    def reg(pat):
        def deco(f):
            ms.append((re.compile(pat), f))
            return f
        return deco

    @reg(r"^(spaces::simple::)?dot_product$")
    def _(eng, st, callee, a, ty):
        return one(pq)

    @reg(r"^core::f32::<impl f32>::clamp$")
    def _(eng, st, callee, a, ty):
        return one(CLAMP(a[0], a[1], a[2]))

    @reg(r"^<Cow<'_, UnalignedVector<f32>> as Deref>::deref$")
    def _(eng, st, callee, a, ty):
        return one(Ref(Cell(Opaque("vector"))))

    eng = DotEngine(ctx.fns, ctx.structs, ctx.enums, ms + list(M.REGISTRY), INLINE, max_depth=3, max_steps=2000)
    fn = find_fn(ctx.fns, r"^cosine::.*::built_distance$")

    def leaf(n):
        return Agg("Leaf", None, {0: Agg("NodeHeaderCosine", None, {0: n}), 1: Agg("Cow", BV(0, 64), {0: Opaque("vector")})})
    finals = eng.run(fn, [Ref(Cell(leaf(pn))), Ref(Cell(leaf(qn)))], env={}, pc=[], deadline=deadline)
    prod = FMUL(pn, qn)
    one32, two32, zero32 = z3.FPVal(1.0, F32), z3.FPVal(2.0, F32), z3.FPVal(0.0, F32)
    spec = z3.If(z3.fpGT(prod, EPS32), FDIV(FSUB(one32, CLAMP(FDIV(pq, prod), z3.FPVal(-1.0, F32), one32)), two32), zero32)
    label = "Cosine::built_distance"
    for f in finals:
        res["paths"] += 1
        if f.status in ("unknown", "unwind"):
            res["unknown"].append(f"{label}: {f.status}: {f.info}")
            continue
        if f.status == "panic":
            if eng.check(f.pc)[0]:
                res["violations"].append({"shape": label, "clause": "panics: " + f.info, "pre": None, "values": {}})
            continue
        # multiplication commutes (trusted axiom, as in the SIMD obligation)
        comm = [FMUL(pn, qn) == FMUL(qn, pn)]
        ok, m = eng.check(list(f.pc) + comm, z3.Not(fp_same(f.value, spec)))
        if ok:
            res["violations"].append({
                "shape": label, "pre": None,
                "clause": "the value is not (1 - clamp(pq / (pn*qn), -1, 1)) / 2 guarded by pn*qn > f32::EPSILON "
                          "(f32 operations uninterpreted)",
                "values": {"norm_p": str(m.eval(pn, model_completion=True)), "norm_q": str(m.eval(qn, model_completion=True))}})
    res["shapes"].append({"shape": label, "paths": len(finals), "ok_paths": len(finals)})
    res["queries"], res["solver_s"] = eng.queries, round(eng.solver_s, 2)
    res["encoded"] = sorted(E.short(x) for x in eng.encoded)
    return res


def cosine_obligation(o, tier, seed):
    import e2
    import native
    from driver import Outcome
    try:
        ctx = e2.context(True)
    except RuntimeError as e:
        return [Outcome(o["id"], "mirsym", "inconclusive", str(e))]
    r = run_cosine(ctx, time.time() + 300)
    return e2_tree.outcomes_from(o, r, "cosine_def", native, e2, Outcome)
