"""Registry of properties and their solver obligations (see DESIGN.md section 4)."""

STD_STUBS = [
    "stub alloc::fmt::format -> empty String (error texts are never observed)",
]
MODELS = [
    "heed model (/verif/models/heed): <=6-slot store, byte-ordered keys, LMDB-like cursors, APPEND => KeyExist iff key <= max key",
    "roaring model (/verif/models/roaring): u64 bit-set over ids 0..64",
    "tempfile/memmap2 models: bounded in-memory file, pass-through BufWriter",
    "tracing model: logging macros expand to nothing",
]

OBLIGATIONS = []


def K(oid, props, files, what, bounds, tier="quick", timeout=600, clause=None, site=None, **kw):
    d = dict(id=oid, engine="kani", props=props, files=files, what=what, bounds=bounds, tier=tier,
             timeout=timeout, clause=clause, site=site)
    d.update(kw)
    OBLIGATIONS.append(d)


# ---------------------------------------------------------------- key algebra (C07, C16)
KEYF = ["key.verif_key.rs"]
K("key_layout_roundtrip_order", ["C07", "C16"], KEYF,
  "KeyCodec encodes to [index_be:2][kind][id_be:4][0], decodes back, and bytewise order of two keys equals (index, kind, id) order",
  "all pairs of (u16 index, 4 kinds, u32 id): exhaustive", timeout=300, site="KeyCodec")
K("kind_discriminants", ["C16"], KEYF,
  "kinds are metadata 0 < updated 1 < tree 2 < item 3 and NodeMode::try_from accepts exactly 0..=3",
  "all u8: exhaustive", timeout=120, site="NodeMode")
K("key_constructors", ["C07", "C16"], KEYF,
  "Key::{metadata,version,updated,item,tree} carry the given index and the documented (kind, id)",
  "all (u16, u32): exhaustive", timeout=120, site="Key")
K("prefix_scopes_exactly_one_index", ["C07"], KEYF,
  "Prefix::{all,item,tree,updated}(i) is a byte prefix of KeyCodec(k) iff k.index == i and the kind matches",
  "all (i, prefix kind, key): exhaustive", timeout=300, site="PrefixCodec")
K("tree_range_is_exactly_the_tree_keys", ["C07"], KEYF,
  "Tree(i,0)..=Tree(i,u32::MAX) contains exactly the tree keys of index i",
  "all (i, key): exhaustive", timeout=300, site="Key::tree range")

# ---------------------------------------------------------------- item store W/R (C05 C06 C07 C19)
ITF = ["writer.verif_items.rs"]
ST3 = "symbolic store: 3 arbitrary entries (any index/kind/id, value <= 16 bytes) + the call's own; dim 2; all f32 bit patterns"
for _n, _d in (("add_item_euclidean", "Euclidean"), ("add_item_manhattan", "Manhattan"), ("add_item_dot_product", "DotProduct")):
    K(_n, ["C05", "C06", "C07"], ITF,
      f"Writer::<{_d}>::add_item stores tag|header|vector bytes verbatim under (index, Item, id), writes the updated mark, and leaves every other entry byte-identical",
      ST3, site="Writer::add_item")
K("add_item_bq_euclidean", ["C05", "C12", "C07"], ITF,
  "Writer::<BinaryQuantizedEuclidean>::add_item stores the sign pattern (bit i = sign bit of x_i clear) zero padded to 64 bits",
  "symbolic store: 2 entries; dim 3; all f32 bit patterns", site="Writer::add_item")
K("add_append_wrong_length_rejected", ["C19"], ITF,
  "add_item/append_item with len != dim return InvalidVecDimension{expected: dim, received: len}; store byte-identical, no write attempted",
  "dim 1..=4, len 0..=6, symbolic store of 3 entries", site="Writer::add_item/append_item")
K("add_append_wrong_length_rejected_bq", ["C19"], ITF,
  "the same under a quantised metric: received = the number of values passed, not the padded width of the encoding",
  "BinaryQuantizedEuclidean, dim 3, 5 values of any bit pattern, symbolic store of 1 entry", site="Writer::add_item/append_item")
K("append_item_contract", ["C19", "C05", "C06", "C07"], ITF,
  "append_item succeeds iff the new item key sorts after every key of the whole store (any index) and then equals add_item; else InvalidItemAppend and no change",
  ST3, site="Writer::append_item")
K("del_item_contract", ["C05", "C06", "C19", "C07"], ITF,
  "del_item returns whether the item key existed; if so the key is gone and the updated mark is written; otherwise nothing changes and nothing is written",
  "symbolic store: 4 entries", site="Writer::del_item")
K("clear_contract", ["C05", "C06", "C07"], ITF,
  "clear removes every entry of the writer's index and leaves every entry of any other index byte-identical",
  "symbolic store: 5 entries, any indexes incl. neighbours and 65535", site="Writer::clear")
K("need_build_contract", ["C06", "C07"], ITF,
  "need_build <=> an updated mark of this index exists or the metadata record is missing",
  "symbolic store: 4 entries", site="Writer::need_build")
K("contains_item_contract", ["C05", "C07"], ITF,
  "contains_item <=> the (index, Item, id) key exists", "symbolic store: 4 entries", site="Writer::contains_item")
K("item_vector_contract", ["C05"], ITF,
  "Writer::item_vector returns the stored vector bit-for-bit at the declared dimension, None when absent",
  "symbolic store: 2 entries + 1 leaf with arbitrary bytes; dim 2", site="Writer::item_vector")
K("iter_yields_stored_vector_euclidean", ["C05", "C07"], ITF,
  "Writer::iter yields the index's stored item once with its vector bit-for-bit at the declared dimension, nothing of other indexes",
  "symbolic store: 2 neighbour entries (no item of this index) + 1 leaf with arbitrary bytes; dim 2", site="ItemIter::next")
K("reset_updated_contract", ["C06", "C07"], ITF,
  "reset_and_retrieve_updated_items removes exactly this index's updated marks, returns their ids, everything else byte-identical",
  "symbolic store: 4 entries; mark ids < 64 (bit-set model)", site="Writer::reset_and_retrieve_updated_items")
K("item_indices_contract", ["C05", "C07"], ITF,
  "item_indices = the ids of this index's item keys; store unchanged",
  "symbolic store: 4 entries; ids < 64", site="Writer::item_indices")
K("used_tree_node_contract", ["C07", "C13"], ITF,
  "used_tree_node = the ids of this index's tree keys",
  "symbolic store: 4 entries; ids < 64", site="Writer::used_tree_node")

# ---------------------------------------------------------------- reader R obligations (C06 C05 C19 C03)
RDF = ["reader.verif_open.rs"]
_OPEN = [("open_euclidean_on_euclidean", "quick"), ("open_euclidean_on_cosine", "quick"), ("open_euclidean_on_manhattan", "thorough"),
         ("open_euclidean_on_dot", "thorough"), ("open_euclidean_on_bq_euclidean", "quick"), ("open_euclidean_on_bq_cosine", "thorough"),
         ("open_euclidean_on_bq_manhattan", "thorough"), ("open_euclidean_on_foreign", "quick"), ("open_cosine_on_cosine", "quick"),
         ("open_manhattan_on_manhattan", "quick"), ("open_dot_on_dot", "quick"), ("open_bqe_on_bqe", "quick"), ("open_bqc_on_bqc", "quick"),
         ("open_bqm_on_bqm", "quick"), ("open_cosine_on_euclidean", "thorough"), ("open_bqe_on_euclidean", "thorough")]
for _n, _t in _OPEN:
    K(_n, ["C06", "C16"] if _n in ("open_euclidean_on_euclidean", "open_cosine_on_cosine", "open_manhattan_on_manhattan", "open_dot_on_dot", "open_bqe_on_bqe", "open_bqc_on_bqc", "open_bqm_on_bqm") else ["C06"], RDF,
      "Reader::open = MissingMetadata iff no metadata record; else UnmatchingDistance iff stored name != D::name(); else NeedBuild iff any updated mark of the index; else Ok with the metadata's dimension/items/roots (%s)" % _n,
      "store: 2 arbitrary entries + optional metadata record (reference encoding, concrete stored name; dims/items/root symbolic)",
      tier=_t, site="Reader::open")
K("reader_item_vector_contains", ["C05"], RDF,
  "Reader::item_vector / contains_item return exactly what the raw item entry holds (bit-for-bit), None/false when absent",
  "store: 2 arbitrary entries + 1 leaf with arbitrary bytes; dim 2", site="Reader::item_vector")
K("query_builder_setters", ["C03"], RDF,
  "Reader::nns + QueryBuilder::{search_k, oversampling, candidates} store exactly the given count, budget, oversampling and candidate filter (an empty filter stays a filter)",
  "all counts, budgets, oversamplings (non-zero), all 64-bit candidate sets", site="QueryBuilder setters", timeout=300)
K("query_rejections", ["C19", "C03"], RDF,
  "by_vector with len != dim => InvalidVecDimension{expected: dim, received: len}; by_item(unknown id) => Ok(None)",
  "dim 1..=4, len 0..=6, store: 3 arbitrary entries", site="QueryBuilder::by_vector/by_item")

# ---------------------------------------------------------------- value codecs (C16)
NDF = ["node.verif_node.rs"]
K("split_codec_layout_roundtrip", ["C16"], NDF,
  "split node encodes to 2|left(kind,id_be)|right(kind,id_be)|normal bytes and decodes back field for field",
  "all child kinds/ids, all 8 normal bytes (dim 2)", site="NodeCodec split")
K("node_id_bytes", ["C16"], NDF, "NodeId::to_bytes/from_bytes: kind byte then id big-endian, tail returned untouched",
  "all (kind, u32)", site="NodeId")
for _n in ("leaf_codec_euclidean", "leaf_codec_cosine", "leaf_codec_dot_product", "leaf_codec_bq_cosine"):
    K(_n, ["C16", "C05"], NDF, "leaf = 0|header (Pod bytes, 4 or 8)|vector bytes verbatim: decode(reference bytes) re-encodes to the same bytes (%s)" % _n,
      "all header bytes, 8 vector bytes", site="NodeCodec leaf")
K("bucket_codec_tag_roundtrip", ["C16"], NDF, "bucket = 1|serialised bitmap; decode keeps the id set",
  "all 64-bit sets of the bit-set model (real roaring wire format is outside the claim)", site="NodeCodec bucket")
K("version_codec_layout", ["C16", "C17"], NDF, "version = 3 x u32 big-endian, round trip", "all values", site="VersionCodec")
K("metadata_codec_layout", ["C16", "C06"], NDF,
  "metadata = name|0|dim_be|bitmap_len_be|bitmap|roots (native-endian u32s), round trip",
  "name 'cosine', all dims, all 64-bit item sets, 2 arbitrary roots", site="MetadataCodec")

# ---------------------------------------------------------------- build options (C15)
OPF = ["writer.verif_opts.rs"]
K("fit_in_descendant_contract", ["C15"], OPF, "fit_in_descendant(n) <=> n <= split_after.unwrap_or(dimensions)",
  "all (dim, split_after, n)", site="Writer::fit_in_descendant")
K("target_n_trees_contract", ["C15"], OPF,
  "target_n_trees returns an explicit n_trees as is; the automatic choice is >= 1 whenever there are more items than one bucket holds",
  "dim 1..=4096, item sets over 64 ids, 0..=16 existing roots", site="target_n_trees",
  clause="automatic tree count is zero")
K("single_leaf_shortcut_contract", ["C15", "C01", "C06", "C07"], OPF,
  "clear_db_and_create_a_single_leaf leaves exactly Tree(0)=bucket(items) (or no tree key), metadata (name, dim, items, roots=[0]|[]), a version record; every other key untouched",
  "store: 3 arbitrary entries (<= 12-byte values); all 64-bit item sets; dim 1..=65535", site="Writer::clear_db_and_create_a_single_leaf",
  tier="thorough", timeout=1800)

# ---------------------------------------------------------------- binary quantisation (C12)
BQF = ["unaligned_vector.verif_bq.rs"]
for _d, _t in ((1, "quick"), (5, "quick"), (64, "quick"), (65, "quick"), (3, "thorough"), (63, "thorough"), (70, "thorough")):
    K("bq_pack_dim%d" % _d, ["C12", "C05"], BQF,
      "from_slice sets bit i iff the sign bit of x_i is clear, pads with zeros to a multiple of 64; len/iter/scalar to_vec read +1/-1 back (dim %d)" % _d,
      "dim %d, all f32 bit patterns (+-0, NaNs of both signs, infinities)" % _d, tier=_t, site="BinaryQuantized::from_slice/iter/to_vec")
K("bq_hamming_geometry_dim5", ["C12"], BQF,
  "quantised Euclidean = 4h (4h/d normalised), Manhattan = 2h (2h/d), zero for equal patterns, symmetric",
  "dim 5, two arbitrary f32 vectors", site="binary_quantized_{euclidean,manhattan}::built_distance")
K("bq_cosine_geometry_dim5", ["C12"], BQF,
  "quantised Cosine = h/64 (padded length), zero for equal patterns, symmetric, strictly increasing in h",
  "dim 5, three arbitrary f32 vectors", site="binary_quantized_cosine::built_distance")

K("bq_cosine_geometry_word", ["C12"], BQF,
  "quantised Cosine over a whole word = h/64 exactly for every h in 0..=64 (h = 32, i.e. cos = 0, included), symmetric",
  "two arbitrary stored 64-bit sign patterns (dimension 64)", site="binary_quantized_cosine::built_distance")
for _d in (3, 65):
    K("bq_from_vec_dim%d" % _d, ["C12", "C18"], BQF,
      "from_vec (the conversion path of a metric change) stores the same words as from_slice: sign pattern at the declared dimension, zero padding (dim %d)" % _d,
      "dim %d, all f32 bit patterns" % _d, site="BinaryQuantized::from_vec")

# ---------------------------------------------------------------- changing the metric (C18)
DCF = ["writer.verif_distance_change.rs"]
_DB = "constant-shape database: index 7 = {metadata, one tree node, items 1 and u32::MAX}, neighbours (6,Item,1) and (8,Tree,0); dim 3; all value bytes symbolic"
# parked: the whole-function Kani harnesses of prepare_changing_distance (f32<->quantised re-encoding through Vec-heavy
# iterator code) gave no verdict in 15 min even on a 3-entry database; see DESIGN.md C18.
K("change_to_same_metric_is_noop", ["C18"], DCF, "prepare_changing_distance to the same metric changes nothing and writes nothing", _DB,
  site="Writer::prepare_changing_distance")

# ---------------------------------------------------------------- E2: search budget (C03)
def MIRSYM(oid, props, what, bounds, runner, tier="quick", **kw):
    d = dict(id=oid, engine="mirsym", props=props, files=[], what=what, bounds=bounds, tier=tier, run=runner)
    d.update(kw)
    OBLIGATIONS.append(d)


def _lazy(mod, fn="obligation"):
    def run(o, tier, seed):
        import importlib
        return getattr(importlib.import_module(mod), fn)(o, tier, seed)
    return run


MIRSYM("search_budget", ["C03"],
       "the budget nns_by_leaf works with equals search_k.unwrap_or(count (x) n_trees) (x) oversampling.unwrap_or(DEFAULT_OVERSAMPLING) with saturating products, and computing it never panics",
       "count, search_k, oversampling over the whole usize range; n_trees <= 2^32; DEFAULT_OVERSAMPLING 1..=16; dev (overflow checks on) and release (off) MIR",
       _lazy("e2_budget"))

# ---------------------------------------------------------------- E2: tree steps (C01 C04 C15)
_TREE_BOUNDS = "one tree, shapes {bucket; split(bucket|item, bucket|item)} (thorough: + depth 2), node ids concrete, item ids / bucket contents / zero-normal flags / side decisions symbolic over a 16-id universe, <= 6 stored items, 1..=2 new ids (thorough: 3 below depth-1 shapes, 2 below depth-2 shapes), split_after 1..=3; fresh node ids from the inlined ConcurrentNodeIds"
MIRSYM("insert_items_step", ["C01", "C15", "C04"],
       "insert_items_in_file from any pre-state satisfying Inv: afterwards the tree reaches exactly I u N, each item once, no dangling/orphan node; every over-full bucket is reported in large_descendants by node id and everything reported is a bucket",
       _TREE_BOUNDS, _lazy("e2_tree", "insert_obligation"), site="Writer::insert_items_in_file")

MIRSYM("delete_items_step", ["C01", "C04", "C15"],
       "delete_items_in_file from any pre-state satisfying Inv and any set to delete: the returned root's tree reaches exactly I minus D, each once, no reference to a deleted item or removed node, no orphan; the returned item set is I minus D; with a constant capacity no bucket above split_after appears",
       _TREE_BOUNDS, _lazy("e2_tree", "delete_obligation"), site="Writer::delete_items_in_file")
MIRSYM("delete_extra_trees_step", ["C15", "C01", "C10"],
       "delete_extra_trees on a two-tree forest whose deleted items are already gone from the store: succeeds, removes max(0, roots - target) trees (oldest first) with all their nodes, leaves the other tree intact",
       "forest = the shape family (root 0) + one bucket tree (id 10); already-deleted item set symbolic; target 0..=3",
       _lazy("e2_tree", "delete_trees_obligation"), site="Writer::delete_extra_trees/delete_tree")

MIRSYM("make_tree_step", ["C01", "C15", "C20", "C04"],
       "make_tree_in_file over every item set S: returns a subtree reaching exactly S, each once, node ids fresh and distinct, node count exact, every bucket within split_after, [C04] below every stored non-zero normal each item on the side D::side answered against that very normal; whatever D::side answers (all-one-side / duplicate / degenerate geometry included) and for zero or non-zero normals; randomly_split_children partitions its input",
       "1 <= |S| <= 2 (thorough 3) over a 16-id universe, split_after 1..=3, all side decisions symbolic, used node ids {0,2}; fair-RNG assumption for the random fallback (both sides non-empty)",
       _lazy("e2_tree", "make_tree_obligation"), site="Writer::make_tree_in_file")

MIRSYM("make_tree_skewed_step", ["C04"],
       "make_tree_in_file with split_imbalance replaced by its contract (any f64 in [0.5, 1], > 0.99 when a side is empty), i.e. with the retry loop and the no-usable-hyperplane fallback free to take every branch combination a node of hundreds of items can take: the subtree still reaches exactly S, and below every stored non-zero normal each item is on the side D::side answered against that very normal (the stored plane is the plane that partitioned, or it is the zero dummy plane)",
       "|S| = 2 (thorough: + |S| = 3 under a 50 min cap) over a 16-id universe, split_after 1..=3, all side decisions and all <= 4 imbalance values per node symbolic; fair-RNG assumption for the random fallback; counterexamples are replayed natively on skewed data sets (120-on-a-ray + 1 outlier; 194 collinear + 6 outliers)",
       _lazy("e2_tree", "make_tree_abstract_obligation"), site="Writer::make_tree_in_file")

MIRSYM("node_ids_interleavings", ["C13"],
       "from every state ConcurrentNodeIds::new can produce, under every sequentially consistent interleaving of the atomic steps of k threads x m calls of next(): every returned Ok(id) is not in use and pairwise distinct",
       "used sets over a 16-id universe (incl. the moment recycled ids run out); (k,m) in {2x1, 2x2} quick, + {3x1, 2x3} thorough; atomic step = one atomic access of the MIR",
       _lazy("e2_ids"), site="ConcurrentNodeIds::next")

# ---------------------------------------------------------------- metric formulas (C04 C11 C20)
DSF = ["distance.verif_dist.rs"]
for _n, _d in (("routing_euclidean", "Euclidean"), ("routing_cosine", "Cosine"), ("routing_manhattan", "Manhattan"), ("routing_dot_product", "DotProduct"),
               ("routing_bq_euclidean", "BinaryQuantizedEuclidean"), ("routing_bq_cosine", "BinaryQuantizedCosine"), ("routing_bq_manhattan", "BinaryQuantizedManhattan")):
    K(_n, ["C04"], DSF,
      f"{_d}: for every vector v, normal n with margin(v,n) not in {{0, NaN}} and inherited priority d > 0, side(n, v) is the child whose pq_distance(d, margin(n,v), .) is strictly larger, and that priority is > 0",
      "dim 2 (f32, dot_product as a symmetric uninterpreted function) / 64 bits (quantised, real xor-popcount kernel); all f32 bit patterns",
      site="Distance::side / pq_distance / margin_no_header", timeout=300)
K("side_degenerate_margins", ["C20", "C04"], DSF,
  "side takes Right/Left exactly for positive/negative margins (random otherwise) and pq_distance returns one of its inputs; no panic for NaN/inf/subnormal inputs",
  "all f32 bit patterns; dot_product uninterpreted", site="Distance::side / pq_distance", timeout=300)
K("normalized_distance_total", ["C20", "C11"], DSF,
  "normalized_distance of all 7 metrics never panics; non-negative for non-negative inputs (true metrics); identity for cosine; DotProduct reports +dot",
  "all f32, all dimensions >= 1", site="Distance::normalized_distance", timeout=300)
K("manhattan_self_zero_symmetric", ["C11"], DSF,
  "Manhattan built_distance(p,p) = 0 and is argument-symmetric bit-for-bit (real code)", "dim 2, all finite f32",
  site="Manhattan::built_distance", timeout=600)
K("built_distance_is_the_kernel_value", ["C11", "C02"], DSF,
  "DotProduct::built_distance = -dot_product(p, q) (so the reported score is +dot) and Euclidean::built_distance = euclidean_distance(p, q), whatever the leaf headers contain",
  "all header values, dim 2, kernels as uninterpreted functions", site="DotProduct/Euclidean::built_distance", timeout=300)
# cosine_built_distance_definition as a Kani harness: CBMC does not finish the duplicated division circuits in 600 s (parked); decided structurally by the mirsym obligation of the same name.
# cosine_range (Cosine::built_distance in [0,1]): one f32 product and one division of symbolic floats -- no CBMC verdict in 300 s; not registered.

_SEARCH_BOUNDS = "forests: 1 tree from {bucket; split(bucket,bucket); split(item,bucket)} + (split(bucket,item) with a second single-bucket tree); thorough adds the other depth-1 shapes and one depth-2 shape, <= 3 (thorough 4) items over a 16-id universe; count 0..=6; candidate filter absent or any 16-bit set; per-item distances = uninterpreted f32 function of the id (any values incl. NaN/inf/ties); per-split margins arbitrary f32"
MIRSYM("exact_search", ["C02"],
       "nns_by_leaf with an unlimited budget returns exactly min(count, #items in the filter) items, distinct, stored, inside the filter, nearest first by (distance, id), each with normalized_distance(built_distance), and no closer stored item is missing",
       _SEARCH_BOUNDS + "; search_k = usize::MAX", _lazy("e2_search"), site="Reader::nns_by_leaf", unlimited=True)
MIRSYM("bounded_search_wellformed", ["C03", "C20"],
       "nns_by_leaf with any budget search_k in 1..=8 returns at most count results, all distinct, stored, inside the candidate filter, ordered nearest first, each carrying normalized_distance(built_distance); never panics or errs on a valid forest",
       _SEARCH_BOUNDS, _lazy("e2_search"), site="Reader::nns_by_leaf", unlimited=False)

MIRSYM("budget_monotone", ["C03"],
       "for the same forest, query, count and candidate filter and budgets k1 < k2, nns_by_leaf with k2 returns at least as many results as with k1 and at no rank an item farther than the one k1 returns there (two runs of the real MIR over shared uninterpreted distances and per-split margins; every pair of paths decided by z3)",
       "forests: split(bucket,bucket), split(item,bucket) (+ split(bucket,item) with a second single-bucket tree), <= 2 items (thorough 3, more shapes) over a 16-id universe; budgets 1..=3 (thorough up to 4); count 0..=4; filter absent or any set; distances/margins arbitrary f32 functions",
       _lazy("e2_search", "monotone_obligation"), site="Reader::nns_by_leaf")

MIRSYM("tree_steps_under_faults", ["C10"],
       "insert_items_in_file / delete_items_in_file with the cancellation callback answering true from its n-th poll on (n symbolic) and the k-th temp-file write failing (k symbolic): never panic, return only Ok, BuildCancelled (and only after the callback answered true) or the injected error; when they return Ok the C01 contract holds",
       _TREE_BOUNDS + "; cancel point and fault point over the whole u32 range", _lazy("e2_tree", "faults_obligation"),
       site="BuildOption::cancelled / TmpNodes::put")

MIRSYM("change_metric_step", ["C18", "C07"],
       "prepare_changing_distance over a constant-shape database: every item key kept and re-encoded as a valid leaf of the new metric at the declared dimension; forest and metadata of the index removed; pending marks and every entry of other indexes untouched; same metric => nothing written",
       "database: index 7 = {metadata, version, 1 updated mark, 2 tree nodes, items 1 and u32::MAX} + neighbours 6 and 8; dimension 1..=130 symbolic; codec transitions f32->f32, f32->quantised, quantised->f32, quantised->quantised, identity; vectors abstracted to (codec, logical length)",
       _lazy("e2_metric"), site="Writer::prepare_changing_distance")

MIRSYM("item_iteration", ["C05", "C12"],
       "Writer::iter / Reader::iter + ItemIter::next over a constant-shape database yield exactly this index's items, ascending, once each, every vector at the declared dimension (for quantised metrics: not at the padded width), nothing of the neighbouring indexes, no error or panic",
       "database: index 7 with items 1 and u32::MAX (+ metadata, marks, tree nodes) and neighbours 6 and 8; dimension 1..=300 symbolic; f32 and quantised leaves abstracted to (codec, logical length)",
       _lazy("e2_metric", "iter_obligation"), site="ItemIter::next")

MIRSYM("query_entry_points", ["C03", "C19", "C05"],
       "QueryBuilder::by_item searches with the stored leaf of exactly (index, Item, id) and the builder's own options, answers Ok(None) without searching when the id is not stored (same id under another kind / in neighbouring indexes notwithstanding); by_vector rejects every length != dimension with (expected, received) and otherwise searches with Leaf{new_header(v), v}; Reader/Writer::is_empty <=> the index has no item key; none of them writes",
       "database: index 7 with items 1 and u32::MAX, decoys (7, Tree, 1), (6, Item, 2), (8, Item, 2); ids 0, 1, 2, u32::MAX; dimension 1..=300 and vector length 0..=400 symbolic; nns_by_leaf replaced by a recorder; f32 and quantised leaves",
       _lazy("e2_query"), site="QueryBuilder::by_item / by_vector")

MIRSYM("dot_product_preprocess", ["C05", "C07"],
       "DotProduct::preprocess (run by every build) keeps every item key of the index with the same vector, rewrites only the header to (extra_dim = sqrt(max_norm^2 - norm^2), norm = max_norm^2) with max_norm the running f32::max of the norms, and touches no other key of the database (tree nodes, marks, metadata, neighbouring indexes)",
       "databases with 0, 1 and 3 items (ids 1, 5, u32::MAX) in index 7 next to indexes 6 and 8; squared norms = symbolic f32 of any bit pattern (uninterpreted dot product); the iterator closure = a cursor over the index's item keys",
       _lazy("e2_dot"), site="DotProduct::preprocess")

MIRSYM("two_means_bounded_sampling", ["C20"],
       "two_means / two_means_binary_quantized with cosine = true on data whose sampled norms are all NaN or <= 0 (all-zero vectors, NaN vectors): the sampling loop returns Ok after a bounded number of samples (every iteration, including the skipped ones, consumes the loop counter), never panics",
       "one symbolic path per function and class: every sampled norm NaN, or every vector with the same symbolic norm n0 in (-inf, 0]; distances arbitrary f32; bound = 8000 executed MIR blocks (the code needs < 3900 for its 200 samples); datasets with positive norms fork 3 ways per iteration and are outside this obligation",
       _lazy("e2_means"), site="distance::two_means")

MIRSYM("cosine_built_distance_definition", ["C11"],
       "Cosine::built_distance is the term (1 - clamp(pq / (pn*qn), -1, 1)) / 2 guarded by pn*qn > f32::EPSILON, and 0.0 otherwise, for every pair of stored norms and every dot product (a vector with a tiny norm is not a zero vector while the product is large)",
       "norms and dot product symbolic f32 of any bit pattern; f32 *, /, -, clamp uninterpreted (term equality modulo congruence and commutativity of *), the comparison with EPSILON interpreted",
       _lazy("e2_dot", "cosine_obligation"), site="Cosine::built_distance")

MIRSYM("distance_kernels_structure", ["C11"],
       "for every length n the value computed by spaces::simple::{dot_product, euclidean_distance} on each dispatch path (AVX+FMA, SSE, scalar) equals sum_i a_i*b_i resp. sum_i (a_i-b_i)^2 modulo re-association of the sum: every index used exactly once, right pairing, right remainder, no out-of-bounds read",
       "n in 1..=40 and around every multiple of 16/32 up to 300 (thorough: all n in 1..=300); element values symbolic; float + as real addition, - and * uninterpreted (multiplication commutative); CPU features symbolic",
       _lazy("e2_simd"), site="spaces::simple / simple_sse / simple_avx")

MIRSYM("upgrade_steps", ["C17"],
       "cosine_from_0_4_to_0_5 maps a v0.4 database (old key kinds, old kinds inside split nodes, pending-updates bitmap) to exactly its current-layout image, key for key (items byte for byte, split children re-tagged, metric renamed, one updated mark per pending id, junk cleared); an undefined key kind is rejected with CannotDecodeKeyMode; from_0_5_to_0_6 scans 0..=65535 and writes a version record exactly for the indexes that have metadata",
       "source: 2 indexes, items, 2 splits with item/tree children on either side, a bucket, metadata, pending-updates set symbolic with <= 2 ids over a 16-id universe; destination pre-filled with junk; 0.5->0.6: one iteration for an arbitrary u16 index",
       _lazy("e2_upgrade"), site="upgrade::cosine_from_0_4_to_0_5 / from_0_5_to_0_6")

_HIST_BOUNDS = "histories of 2-3 rounds (adds, deletes, build with n_trees / split_after) on <= 5 concrete item ids, dims 2-3, next to two neighbour indexes; every D::side answer, random draw (fair), zero/non-zero normal symbolic; quick: <= 10 distinct database states extended per round, thorough <= 40; rayon's map executed sequentially; ImmutableLeafs::new below the 200-leaf batch"
MIRSYM("build_history", ["C01", "C06", "C15", "C07"],
       "Writer::build executed from its MIR over whole histories: after every successful build each tree reaches exactly the stored items once, no dangling/orphan node, metadata = (items, roots), no updated mark left, the requested number of trees, every bucket within split_after, neighbour indexes untouched",
       _HIST_BOUNDS, _lazy("e2_build"), site="Writer::build (whole pipeline)")
MIRSYM("build_history_cancelled", ["C10"],
       "the same histories with the cancellation callback answering true from its n-th poll on (n symbolic): build never panics, returns only Ok or BuildCancelled (after a true poll), and whenever it returns Ok the database satisfies the whole post-condition (never success over a half-built forest)",
       _HIST_BOUNDS + "; cancel point any u32", _lazy("e2_build"), site="Writer::build (whole pipeline)", cancel=True)
MIRSYM("build_history_db_faults", ["C10"],
       "the same histories with the k-th database write of the build (put / delete / delete_range / cursor delete; k symbolic) failing with MDB_MAP_FULL and having no effect: build never panics and never returns Ok after a failed write; it returns the store error (or Ok with the whole post-condition when no write failed)",
       _HIST_BOUNDS + "; fault point any u32; single-tree and parity-sided histories", _lazy("e2_build"),
       site="Writer::build (whole pipeline)", db_faults=True)

PROPS = {}

KANI_NOTE = ("Trusted: Kani/CBMC and rustc MIR semantics; the environment models in /verif/models (heed store, "
             "roaring bit-set, temp file) and the listed stubs; bounds as listed per obligation in the evidence; "
             "the composition of one-step obligations into whole histories is a paper argument (DESIGN.md section 3).")


def P(pid, title, technique, level_text, level_note=KANI_NOTE, **meta):
    PROPS[pid] = {"title": title, "technique": technique, "level_text": level_text,
                  "level_note": level_note, "meta": meta}


NOT_APPLICABLE = {
    "C08": "LMDB MVCC and OS thread schedules of FFI calls: arroy contributes no code to the mechanism beyond taking the caller's &mut RwTxn/&RoTxn (enforced by Rust's types); neither Kani nor the MIR executor can encode real LMDB transactions or threads.",
    "C09": "Process kills, page cache and LMDB's copy-on-write commit are outside any symbolic encoding of arroy's code; no arroy code implements the mechanism.",
    "C14": "The memory-hint batching only engages above 200 leaves per pass and works on raw mmap addresses and page arithmetic; neither engine can carry >= 201 symbolic leaves and lowering the constant would verify different code.",
}
for _p in ("C01", "C02", "C03", "C04", "C05", "C06", "C10", "C11", "C12", "C13", "C15", "C17", "C18", "C19", "C20"):
    NOT_APPLICABLE[_p] = "not reached yet: obligations under construction (see DESIGN.md build order); nothing is claimed on partial machinery"


def claim(pid):
    NOT_APPLICABLE.pop(pid, None)


def engine_props(engine):
    return {p for o in OBLIGATIONS for p in o["props"] if o["engine"] == engine and p in PROPS and p not in NOT_APPLICABLE}


P("C07", "Indexes sharing one database never affect each other",
  "bounded model checking (Kani/CBMC) of the real key/prefix codecs over the whole key space, plus frame-condition harnesses over a symbolic model store",
  "Bounded model checking: every obligation is decided by CBMC over all symbolic inputs within the listed bounds (key lemmas are exhaustive over the whole (u16, kind, u32) space).",
  stubs_and_models=STD_STUBS + MODELS,
  functions_encoded=["key::KeyCodec::bytes_encode", "key::KeyCodec::bytes_decode",
                     "key::PrefixCodec::bytes_encode", "key::Key::*", "key::Prefix::*"],
  bounds={"keys": "full (u16, kind, u32) space", "store": "<= 6 entries"},
  outside_claim=["LMDB's own range/prefix semantics (model)", "stores with more than 6 entries"],
  assumptions=["environment models are faithful to heed/LMDB and roaring for the calls arroy makes"])
P("C16", "The on-disk format stays readable",
  "bounded model checking (Kani/CBMC) of the real codecs against a harness-owned reference encoder/decoder, all fields symbolic",
  "Bounded model checking: encode = reference layout and decode(encode(x)) = x for every field value within the listed bounds.",
  stubs_and_models=STD_STUBS + MODELS,
  functions_encoded=["key::KeyCodec", "node_id::NodeMode::try_from"],
  bounds={"keys": "full (u16, kind, u32) space"},
  outside_claim=["roaring's own wire format (pinned dependency)"],
  assumptions=["reference layout = DESIGN.md appendix A, captured from the pinned commit"])


P("C05", "The item store returns exactly what was last written",
  "bounded model checking (Kani/CBMC) of single API calls over a symbolic model store, post-state read from the raw store; MIR symbolic execution (z3) of the iterators, is_empty and DotProduct::preprocess over a key-value world",
  "Bounded model checking of every item-store mutator and reader (one call from an arbitrary bounded pre-state, all f32 bit patterns); iteration, emptiness and the build-time header rewrite of DotProduct are decided by the MIR executor (E2); histories are covered by the inductive step argument.",
  stubs_and_models=STD_STUBS + MODELS,
  functions_encoded=["Writer::add_item", "Writer::append_item", "Writer::del_item", "Writer::clear", "Writer::item_vector",
                     "Writer::contains_item", "Writer::item_indices", "Reader::item_vector", "Reader::contains_item", "NodeCodec (leaf)",
                     "Writer::iter", "Reader::iter", "ItemIter::next", "Writer::is_empty", "Reader::is_empty", "DotProduct::preprocess"],
  bounds={"store": "<= 6 entries (3-5 arbitrary pre-existing)", "dimension": "2 (f32), 3 (quantised); 1..=300 symbolic in the E2 obligations",
          "ids": "whole u32 at key level, < 64 inside bitmaps"},
  outside_claim=["commit/abort visibility (LMDB)", "dimensions beyond the bound", "the SSE to_vec path of quantised vectors (see C12)"],
  assumptions=["environment models are faithful for the calls arroy makes"])
P("C06", "A stale or never-built index is never silently served",
  "bounded model checking (Kani/CBMC) of the updated-mark writers, Reader::open and need_build over a symbolic model store",
  "Bounded model checking: every mutator leaves an updated mark, rejected/no-op calls leave the store identical, Reader::open's outcome is exactly the documented decision table for every store within bounds.",
  stubs_and_models=STD_STUBS + MODELS,
  functions_encoded=["Writer::add_item", "Writer::append_item", "Writer::del_item", "Writer::clear", "Writer::need_build",
                     "Writer::reset_and_retrieve_updated_items", "Reader::open", "MetadataCodec::bytes_decode", "Distance::name (x7)"],
  bounds={"store": "<= 6 entries", "stored metric names": "the 7 real names + one foreign"},
  outside_claim=["commit/abort visibility (LMDB)", "that build ends with the metadata write on every success path (read off build's two exits)"],
  assumptions=["environment models are faithful for the calls arroy makes"])
P("C19", "Rejected calls have no effect",
  "bounded model checking (Kani/CBMC) with a whole-store frame condition",
  "Bounded model checking: wrong-length add/append/by_vector, non-monotone append and delete of an absent id return the documented error/false and the store is byte-identical (no write attempted).",
  stubs_and_models=STD_STUBS + MODELS,
  functions_encoded=["Writer::add_item", "Writer::append_item", "Writer::del_item", "QueryBuilder::by_vector", "QueryBuilder::by_item"],
  bounds={"store": "<= 6 entries", "dimension": "1..=4 (quantised: 3)", "vector length": "0..=6 (quantised: 5); by_vector in E2: dimension 1..=300, length 0..=400"},
  outside_claim=["LMDB's actual MDB_APPEND behaviour (model contract)"],
  assumptions=["environment models are faithful for the calls arroy makes"])
P("C15", "Build options are honoured: tree count and bucket capacity",
  "bounded model checking (Kani/CBMC) of target_n_trees / fit_in_descendant / the single-bucket shortcut; MIR symbolic execution (z3) of the tree-step capacity clauses",
  "Bounded model checking of the option arithmetic and of the single-bucket shortcut's post-state; the capacity clause of the tree steps is decided by the MIR executor (E2).",
  stubs_and_models=STD_STUBS + MODELS,
  functions_encoded=["writer::target_n_trees", "Writer::fit_in_descendant", "Writer::clear_db_and_create_a_single_leaf"],
  bounds={"dimension": "1..=4096", "items": "sets over 64 ids", "roots": "<= 3"},
  outside_claim=["reader-visible counts after a real build (composition)"],
  assumptions=["environment models are faithful for the calls arroy makes"])
P("C12", "Binary quantisation keeps exactly the sign pattern and its Hamming geometry",
  "bounded model checking (Kani/CBMC) of the real packing/unpacking/xor-popcount code, integer reasoning over all f32 bit patterns",
  "Bounded model checking: the real from_slice/iter/to_vec and the three quantised distance kernels are decided for every f32 bit pattern at the listed dimensions.",
  stubs_and_models=STD_STUBS + ["stub std_detect::detect::cache::test -> false (scalar to_vec path; SSE path separately with _mm_blendv_ps stubbed lane-wise)"],
  functions_encoded=["BinaryQuantized::from_slice", "from_slice_non_optimized", "BinaryQuantizedIterator", "to_vec_non_optimized",
                     "dot_product_binary_quantized", "squared_euclidean_distance_binary_quantized", "manhattan_distance_binary_quantized",
                     "BinaryQuantizedCosine::built_distance"],
  bounds={"dimension": "1, 3, 5, 63, 64, 65, 70 for packing; 5 for distances"},
  outside_claim=["NEON paths", "dims > 70 (the word loop is uniform)"],
  assumptions=[])
P("C18", "Changing the metric keeps the items and forces a rebuild",
  "symbolic execution of the rustc MIR of prepare_changing_distance / clear_tree_nodes (z3) over a constant-shape key-value database with vectors abstracted to (codec, length); a Kani harness for the identity case",
  "Bounded symbolic execution of the real MIR for the four codec transitions and the identity, dimension symbolic in 1..=130, with a whole-database frame condition (the whole-function Kani harnesses gave no verdict in 15 min and are parked).",
  stubs_and_models=STD_STUBS + MODELS + ["stub _mm_blendv_ps lane-wise (quantised sources)"],
  functions_encoded=["Writer::prepare_changing_distance", "writer::clear_tree_nodes", "Writer::need_build", "UnalignedVector::to_vec/from_vec", "Distance::new_header"],
  bounds={"database": "constant shape, 6 entries, dim 3", "pairs": "E->M, E->Dot, Dot->E, E->BQE, BQE->E, BQE->BQM, E->E"},
  outside_claim=["the rebuilt index (C01/C02)", "metric pairs whose new header needs float arithmetic on symbolic data (Cosine norm)"],
  assumptions=["environment models are faithful for the calls arroy makes"])
P("C03", "Any-budget, filtered search results are well-formed and budget-monotone",
  "symbolic execution of the rustc MIR of Reader::nns_by_leaf with z3 (budget arithmetic over the whole usize range; traversal over a bounded forest family), plus Kani harnesses for the rejected-query paths",
  "Bounded symbolic execution of the real MIR: every path of the encoded fragment is enumerated and each assertion is decided by z3 for all values within the bounds.",
  level_note="Trusted: rustc's MIR as the semantics of the code, z3, the model table of std/roaring/heed calls (lib/mirsym/models.py), std's saturating_mul as an uninterpreted function with its defining axiom; forests outside the bounded shape family are outside the claim.",
  stubs_and_models=["E2 model table: Option/Result/Try, NonZero, saturating ops (UF + axiom), RoaringBitmap = 16-bit bit-set, ItemIds::len = symbolic root count"],
  functions_encoded=["Reader::nns_by_leaf", "Reader::nns_by_leaf::{closure#0}", "QueryBuilder::by_vector", "QueryBuilder::by_item"],
  bounds={"count/search_k/oversampling": "whole usize range", "trees": "<= 2^32"},
  outside_claim=["numeric accuracy of distances (C11)", "forests beyond the bounded family"],
  assumptions=["MIR dumped with overflow-checks on = dev profile, off = release profile"])
P("C01", "Every tree of a built index covers exactly the live items, each once",
  "symbolic execution of the rustc MIR of the recursive writer functions (z3 decides every path and assertion) from every pre-state of a bounded forest family satisfying the representation invariant; Kani for the single-bucket shortcut",
  "Bounded symbolic execution: one step of each build-pipeline function from an arbitrary invariant-satisfying pre-state within the shape family, plus Writer::build as a whole executed from its MIR over short histories (build_history); the composition beyond those histories is a paper argument.",
  level_note="Trusted: rustc MIR semantics, z3, the model table (bit-set bitmaps, store, TmpNodes as put/remove/remap lists, fresh side decisions), the invariant Inv and the step contracts of DESIGN.md section 3; the induction over histories longer than the listed ones is not machine-checked.",
  stubs_and_models=["E2 model table (lib/mirsym/models.py, world.py)"],
  functions_encoded=["Writer::build", "Writer::item_indices", "Writer::reset_and_retrieve_updated_items", "Writer::clear_db_and_create_a_single_leaf", "Writer::used_tree_node",
                     "target_n_trees", "Writer::delete_extra_trees", "Writer::delete_tree", "Writer::delete_items_from_trees", "Writer::delete_items_in_file",
                     "Writer::insert_items_in_current_trees", "Writer::insert_items_in_tree", "Writer::insert_items_in_file", "Writer::incremental_index_large_descendants",
                     "Writer::make_tree_in_file", "Writer::fit_in_descendant", "ConcurrentNodeIds::new", "ConcurrentNodeIds::next",
                     "randomly_split_children", "split_imbalance", "BuildOption::cancelled", "NodeId::tree/item"],
  bounds={"steps": "1 tree, depth <= 2, <= 6 items, 16-id universe, split_after 1..=3", "histories": "2-3 rounds on <= 5 concrete items; <= 10 (40) states extended per round"},
  outside_claim=["histories beyond the bounds (the general composition remains a paper argument)", "rayon interleavings (C13)", "batching with > 200 leaves (C14)", "real roaring/LMDB behaviour"],
  assumptions=["Inv(F, I) as in DESIGN.md section 3"])
P("C13", "Parallel tree updates never collide, whatever the thread schedule",
  "symbolic execution of the rustc MIR of ConcurrentNodeIds::new/next into per-path thread summaries (atomic accesses as events), then one SMT formula over symbolic timestamps and reads-from relations decided by z3 for all schedules at once",
  "Bounded model checking of the id generator: all sequentially consistent schedules of k x m requests and all initial used sets within the bounds are covered by a single solver query per configuration, with a completion witness against vacuity.",
  level_note="Trusted: rustc MIR semantics, z3, sequential consistency as the memory model (weak-memory reorderings are outside the solver's claim; counterexamples are replayed natively under loom, which does explore them), the bit-set model of the `available` bitmap; rayon's scheduling of whole trees and the hand-written Sync impls are not decidable here.",
  stubs_and_models=["atomics in event mode (read / write / rmw events with symbolic timestamps)", "RoaringBitmap = 16-bit bit-set"],
  functions_encoded=["ConcurrentNodeIds::new", "ConcurrentNodeIds::next", "Writer::used_tree_node (Kani, initial state)"],
  bounds={"threads x calls": "2x1, 2x2 (quick); 3x1, 2x3 (thorough; 3x2: no solver verdict in 40 min)", "ids": "16"},
  outside_claim=["weak memory", "rayon / Sync impls", "thread pools of 1..16 threads on whole builds"],
  assumptions=["SC atomics"])
P("C04", "A stored vector is routed to itself by every tree (self-lookup works)",
  "bounded model checking (Kani/CBMC) of side/margin/pq_distance for all 7 metrics, plus MIR symbolic execution of the routing steps",
  "Bounded model checking of the routing lemma per metric (comparisons/min/negation decided bit-precisely; dot_product as a symmetric uninterpreted function for the f32 metrics, the real xor-popcount kernel for the quantised ones); the tree steps' structure is covered by the C01 obligations.",
  stubs_and_models=STD_STUBS + ["stub spaces::simple::dot_product -> symmetric uninterpreted function (trusted axiom: IEEE multiplication commutes)", "symbolic RNG"],
  functions_encoded=["Distance::side", "Distance::pq_distance", "Distance::margin_no_header (x7)", "dot_product_binary_quantized", "Writer::insert_items_in_file", "Writer::delete_items_in_file", "Writer::make_tree_in_file (concrete and contract-abstracted split_imbalance)"],
  bounds={"dimension": "2 (f32) / 64 bits (quantised)", "make_tree_skewed_step": "|S| = 2, <= 4 symbolic imbalance values per node"},
  outside_claim=["the end-to-end search_k = 1 observation (needs a build)", "numerical meaning of margin", "|S| >= 3 under the imbalance abstraction"],
  assumptions=["dot(u,v) = dot(v,u)", "split_imbalance contract (trusted): result in [0.5, 1], not NaN, > 0.99 when one side is empty"])
P("C02", "Unlimited-budget search returns the exact nearest neighbours",
  "symbolic execution of the rustc MIR of Reader::nns_by_leaf (whole function) with z3 over a bounded forest family, symbolic distances as an uninterpreted function",
  "Bounded symbolic execution: every path of nns_by_leaf over every forest of the family and every distance/margin/filter/count valuation is enumerated; the exactness oracle is decided by z3 on each.",
  level_note="Trusted: rustc MIR, z3, contracts of std containers (BinaryHeap::pop = greatest by Ord, sort_unstable+dedup = set), the bit-set bitmap model, distances as an uninterpreted function of the item id (numeric accuracy is C11's subject); forest completeness is C01's claim.",
  stubs_and_models=["E2 model table + search models (lib/e2_search.py)"],
  functions_encoded=["Reader::nns_by_leaf", "nns_by_leaf::{closure#0}", "nns_by_leaf::{closure#1}", "Distance::pq_distance", "NodeId::unwrap_item", "Key::new", "Key::item", "NodeId::tree"],
  bounds={"forest": "1-2 trees, depth <= 1 (thorough 2), <= 3 (4) items", "count": "0..=6"},
  outside_claim=["numeric accuracy of distances (C11)", "forests beyond the family", "by_item = by_vector header equality"],
  assumptions=["Inv(F, I)"])
P("C10", "A build that fails or is cancelled reports it and can be rolled back",
  "symbolic execution of the rustc MIR of the build pipeline's tree steps under a symbolic cancellation point and a symbolic write fault (z3)",
  "Every encoded build step under every cancellation point and temp-file fault point, and Writer::build as a whole (executed from its MIR over small histories) under every cancellation point: never panics, returns only Ok, the cancellation error (after a true poll) or the injected error, and never Ok over a database that violates the build post-condition. Rollback by abort (LMDB), database-full faults inside build() and temp-file/descriptor hygiene are outside the claim.",
  level_note="Trusted: rustc MIR, z3, the model table; the cancellation callback is monotone (once true, always true) as the property states. 'Never success over a half-built forest' for the whole build, rollback (LMDB) and temp files (OS) are NOT claimed.",
  stubs_and_models=["cancel callback = (poll number >= n) with n symbolic", "TmpNodes::put fails at its k-th call with k symbolic"],
  functions_encoded=["Writer::build", "Writer::insert_items_in_current_trees", "Writer::insert_items_in_tree", "Writer::incremental_index_large_descendants",
                     "Writer::delete_items_from_trees", "Writer::insert_items_in_file", "Writer::delete_items_in_file", "Writer::make_tree_in_file", "BuildOption::cancelled"],
  bounds={"forest": "as C01", "histories": "2-3 rounds, <= 5 items, single tree", "cancel/fault point": "any u32"},
  outside_claim=["abort/rollback (LMDB)", "temp files and descriptors (OS)", "LMDB MapFull at arbitrary writes of build()", "histories beyond the bounds"],
  assumptions=["monotone cancellation callback"])
P("C20", "Degenerate data never breaks a build or a search",
  "bounded model checking (Kani/CBMC) of the metric primitives on all f32 bit patterns incl. NaN/inf; MIR symbolic execution (z3) of make_tree_in_file and nns_by_leaf with side decisions, distances and margins left completely unconstrained (so every degenerate geometry is among the solver's choices)",
  "Claimed narrowly: the geometry primitives never panic and behave as documented on NaN/inf/zero inputs; tree construction terminates (under a fair-RNG assumption for the random fallback) and yields a valid subtree whatever the side decisions are; search results are well-formed whatever the distances are. two_means (200 float iterations) and wall-clock bounds are outside the claim.",
  level_note="Trusted: as C01/C03/C04; fair-RNG assumption: a random split leaves both sides non-empty. split_imbalance's f64 arithmetic was given to z3 (FP theory) and got no verdict in 240 s even for lengths <= 255: not claimed.",
  stubs_and_models=STD_STUBS + ["E2 model table", "dot_product as uninterpreted function in the ordering harnesses"],
  functions_encoded=["Distance::side", "Distance::pq_distance", "Distance::normalized_distance (x7)", "Cosine::built_distance", "Writer::make_tree_in_file", "randomly_split_children", "Reader::nns_by_leaf"],
  bounds={"make_tree": "|S| <= 2 (thorough 3)", "search": "as C03"},
  outside_claim=["two_means / create_split internals", "split_imbalance float arithmetic (no solver verdict)", "wall-clock bounds", "real RNGs", "whole builds on degenerate datasets"],
  assumptions=["fair RNG within the random fallback"])
P("C11", "Reported distances equal the metric's definition for every vector shape",
  "symbolic execution of the rustc MIR of the SSE/AVX kernels and their dispatchers with lane-wise intrinsic models, float addition abstracted to real addition and subtraction/multiplication to uninterpreted functions; z3 decides kernel = definition for each length; Kani lemmas for the per-metric formulas",
  "Structural equivalence (which indices are combined with which, on which dispatch path) is decided for every listed length; the formula lemmas are decided bit-precisely. No numeric error bound is derived by the solver: 'within the rounding error of single-precision summation' rests on the standard result about re-associated sums.",
  level_note="Trusted: rustc MIR, z3, Intel's documented lane semantics of the intrinsics used (loadu, add, sub, mul, fmadd, movehl, shuffle, add_ss, cvtss, extractf128, castps256_ps128), real-arithmetic abstraction of f32 addition, commutativity of multiplication, powi(x,2) = x*x; the scalar `*_non_optimized` loops are taken as the definition. NEON is outside the claim; memory alignment is not modelled (unaligned loads are byte-exact).",
  stubs_and_models=["lane-wise intrinsic models (lib/e2_simd.py)", "dot_product as uninterpreted function in the Kani ordering lemmas"],
  functions_encoded=["spaces::simple::dot_product", "spaces::simple::euclidean_distance", "simple_sse::dot_similarity_sse", "simple_sse::euclid_similarity_sse",
                     "simple_avx::dot_similarity_avx", "simple_avx::euclid_similarity_avx", "hsum128_ps_sse", "hsum256_ps_avx",
                     "Manhattan::built_distance", "Cosine::built_distance", "Distance::normalized_distance (x7)"],
  bounds={"length": "1..=300", "formula lemmas": "dim 2"},
  outside_claim=["numeric error bounds", "NEON", "byte offsets/alignment", "Euclidean symmetry/self-distance (float products)"],
  assumptions=["IEEE multiplication commutes"])
P("C17", "Upgrading an old database preserves its whole content",
  "symbolic execution of the rustc MIR of both upgrade functions (z3) over a two-database key-value world with a constant-shape v0.4 source and symbolic pending-update sets",
  "Bounded symbolic execution: the destination equals the current-layout image of the source, key for key, for every pending-updates set within the bound; values are abstract (items are opaque byte strings, tree nodes structured records), so 'byte for byte' is decided at the level of which value object lands under which key, with the codecs themselves covered by C16.",
  level_note="Trusted: rustc MIR, z3, the key-value world (iteration in key order, LazyDecode as typed access to abstract values), C16's codec lemmas for the byte level. The upgraded database opening / passing C01 afterwards is outside the claim. from_0_5_to_0_6 is checked for one arbitrary index with the loop bounds read off the MIR, not by running 65536 iterations.",
  stubs_and_models=["two-database key-value world (lib/e2_upgrade.py)", "fmt machinery as opaque values"],
  functions_encoded=["upgrade::cosine_from_0_4_to_0_5", "OldNodeMode::try_from", "upgrade::from_0_5_to_0_6", "Key::metadata", "Key::version"],
  bounds={"source": "constant shape, 9 entries", "pending ids": "<= 2 of 16"},
  outside_claim=["opening / rebuilding the upgraded database", "byte-level re-encoding (C16)", "databases beyond the shape"],
  assumptions=[])
claim("C17")
claim("C11")
claim("C20")
claim("C18")
claim("C10")
claim("C02")
claim("C04")
claim("C13")
claim("C01")
claim("C03")
claim("C12")
claim("C15")
claim("C05")
claim("C06")
claim("C07")
claim("C16")
claim("C19")


def obligations(prop, tier):
    out = []
    for o in OBLIGATIONS:
        if prop in o["props"] and (tier == "thorough" or o["tier"] == "quick"):
            out.append(o)
    return out
