"""Registry of properties and their solver obligations (see DESIGN.md section 4)."""

STD_STUBS = [
    "stub alloc::fmt::format -> empty String (error texts are never observed)",
]
MODELS = [
    "heed model (/verif/models/heed): <=6-slot store, byte-ordered keys, LMDB-like cursors, APPEND => KeyExist iff key <= max key",
    "roaring model (/verif/models/roaring): u64 bit-set over ids 0..64",
    "tempfile/memmap2 models: bounded in-memory file, pass-through BufWriter",
]

OBLIGATIONS = []


def K(oid, props, files, what, bounds, tier="quick", timeout=600, clause=None, site=None, **kw):
    d = dict(id=oid, engine="kani", props=props, files=files, what=what, bounds=bounds, tier=tier,
             timeout=timeout, clause=clause, site=site)
    d.update(kw)
    OBLIGATIONS.append(d)


# ---------------------------------------------------------------- key algebra (C07, C16)
KEYF = ["key.verif_key.rs"]
K("key_layout_roundtrip_order", ["C07", "C16"], KEYF,
  "KeyCodec encodes to [index_be:2][kind][id_be:4][0], decodes back, and bytewise order of two keys equals (index, kind, id) order",
  "all pairs of (u16 index, 4 kinds, u32 id): exhaustive", timeout=300, site="KeyCodec")
K("kind_discriminants", ["C16"], KEYF,
  "kinds are metadata 0 < updated 1 < tree 2 < item 3 and NodeMode::try_from accepts exactly 0..=3",
  "all u8: exhaustive", timeout=120, site="NodeMode")
K("key_constructors", ["C07", "C16"], KEYF,
  "Key::{metadata,version,updated,item,tree} carry the given index and the documented (kind, id)",
  "all (u16, u32): exhaustive", timeout=120, site="Key")
K("prefix_scopes_exactly_one_index", ["C07"], KEYF,
  "Prefix::{all,item,tree,updated}(i) is a byte prefix of KeyCodec(k) iff k.index == i and the kind matches",
  "all (i, prefix kind, key): exhaustive", timeout=300, site="PrefixCodec")
K("tree_range_is_exactly_the_tree_keys", ["C07"], KEYF,
  "Tree(i,0)..=Tree(i,u32::MAX) contains exactly the tree keys of index i",
  "all (i, key): exhaustive", timeout=300, site="Key::tree range")

PROPS = {}

KANI_NOTE = ("Trusted: Kani/CBMC and rustc MIR semantics; the environment models in /verif/models (heed store, "
             "roaring bit-set, temp file) and the listed stubs; bounds as listed per obligation in the evidence; "
             "the composition of one-step obligations into whole histories is a paper argument (DESIGN.md section 3).")


def P(pid, title, technique, level_text, level_note=KANI_NOTE, **meta):
    PROPS[pid] = {"title": title, "technique": technique, "level_text": level_text,
                  "level_note": level_note, "meta": meta}


NOT_APPLICABLE = {
    "C08": "LMDB MVCC and OS thread schedules of FFI calls: arroy contributes no code to the mechanism beyond taking the caller's &mut RwTxn/&RoTxn (enforced by Rust's types); neither Kani nor the MIR executor can encode real LMDB transactions or threads.",
    "C09": "Process kills, page cache and LMDB's copy-on-write commit are outside any symbolic encoding of arroy's code; no arroy code implements the mechanism.",
    "C14": "The memory-hint batching only engages above 200 leaves per pass and works on raw mmap addresses and page arithmetic; neither engine can carry >= 201 symbolic leaves and lowering the constant would verify different code.",
}
for _p in ("C01", "C02", "C03", "C04", "C05", "C06", "C10", "C11", "C12", "C13", "C15", "C17", "C18", "C19", "C20"):
    NOT_APPLICABLE[_p] = "not reached yet: obligations under construction (see DESIGN.md build order); nothing is claimed on partial machinery"


def claim(pid):
    NOT_APPLICABLE.pop(pid, None)


def engine_props(engine):
    return {p for o in OBLIGATIONS for p in o["props"] if o["engine"] == engine and p in PROPS and p not in NOT_APPLICABLE}


P("C07", "Indexes sharing one database never affect each other",
  "bounded model checking (Kani/CBMC) of the real key/prefix codecs over the whole key space, plus frame-condition harnesses over a symbolic model store",
  "Bounded model checking: every obligation is decided by CBMC over all symbolic inputs within the listed bounds (key lemmas are exhaustive over the whole (u16, kind, u32) space).",
  stubs_and_models=STD_STUBS + MODELS,
  functions_encoded=["key::KeyCodec::bytes_encode", "key::KeyCodec::bytes_decode",
                     "key::PrefixCodec::bytes_encode", "key::Key::*", "key::Prefix::*"],
  bounds={"keys": "full (u16, kind, u32) space", "store": "<= 6 entries"},
  outside_claim=["LMDB's own range/prefix semantics (model)", "stores with more than 6 entries"],
  assumptions=["environment models are faithful to heed/LMDB and roaring for the calls arroy makes"])
P("C16", "The on-disk format stays readable",
  "bounded model checking (Kani/CBMC) of the real codecs against a harness-owned reference encoder/decoder, all fields symbolic",
  "Bounded model checking: encode = reference layout and decode(encode(x)) = x for every field value within the listed bounds.",
  stubs_and_models=STD_STUBS + MODELS,
  functions_encoded=["key::KeyCodec", "node_id::NodeMode::try_from"],
  bounds={"keys": "full (u16, kind, u32) space"},
  outside_claim=["roaring's own wire format (pinned dependency)"],
  assumptions=["reference layout = DESIGN.md appendix A, captured from the pinned commit"])


claim("C07")
claim("C16")


def obligations(prop, tier):
    out = []
    for o in OBLIGATIONS:
        if prop in o["props"] and (tier == "thorough" or o["tier"] == "quick"):
            out.append(o)
    return out
