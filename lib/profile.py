"""Debug helper: build one harness, run cbmc directly with verbosity 9, print the loop-unwinding profile.
usage: python3-vt lib/profile.py <harness> <unwind> <seconds> file1.rs [file2.rs ...]"""
import os, re, sys, glob, collections
sys.path.insert(0, os.path.dirname(os.path.abspath(__file__)))
from common import run
import kani
h, unwind, secs, files = sys.argv[1], sys.argv[2], int(sys.argv[3]), sys.argv[4:]
s = kani.prepare_scratch('prof', files)
try:
    t = s.dir + '/t'
    rc, out, dt = run(["cargo", "kani", "-Z", "stubbing", "-Z", "unstable-options", "--harness-timeout", "1s", "--target-dir", t, "--harness", h, "--keep-temps"], cwd=s.repo, timeout=900)
    if 'error' in out and 'could not compile' in out:
        print('\n'.join(l[:200] for l in out.splitlines() if l.startswith('error'))[:2000])
    fs = [f for f in glob.glob(t + '/kani/*/debug/build/arroy/*/out/*' + h + '.out') if 'symtab' not in f]
    f = fs[0]
    rc, out, dt = run(["cbmc", f, "--no-malloc-may-fail", "--no-undefined-shift-check", "--no-signed-overflow-check", "--nan-check", "--no-self-loops-to-assumptions", "--no-pointer-primitive-check", "--object-bits", "16", "--unwind", unwind, "--unwinding-assertions", "--slice-formula", "--verbosity", "9"], timeout=secs)
    c = collections.Counter()
    for l in out.splitlines():
        m = re.match(r"Unwinding (loop|recursion) (\S+)", l)
        if m:
            c[m.group(2)] += 1
    for k, v in c.most_common(25):
        print(v, k[:150])
    for l in out.splitlines():
        if re.search(r"size of program|Generated|variables|Runtime S|VERIFICATION|unwinding assertion.*FAIL", l):
            print(l[:200])
finally:
    s.close()
