"""Regenerates MANIFEST.json from the registry (claimed) and the not-applicable table."""
import json, os, sys
sys.path.insert(0, os.path.dirname(os.path.abspath(__file__)))
import registry

ALL = [json.loads(l) for l in open('/verif/properties.jsonl')]
NA = registry.NOT_APPLICABLE
checks = []
for p in ALL:
    pid = p['id']
    if pid in registry.PROPS and pid not in NA:
        meta = registry.PROPS[pid]
        checks.append({
            "property_id": pid,
            "quick_cmd": f"./check {pid} --tier quick",
            "thorough_cmd": f"./check {pid} --tier thorough",
            "evidence_file": f"/verif/evidence/{pid}.json",
            "replay_cmd_template": f"./check {pid} --replay {{path}}",
            "engine": meta.get("engine", "kani-inject (E1) + mirsym (E2)"),
            "level_claimed": {
                "category": "model_checking",
                "text": meta["level_text"],
                "design_ref": f"DESIGN.md section 4, {pid}",
            },
            "level_note": meta["level_note"],
            "technique": meta["technique"],
        })
man = {
    "version": 1,
    "setup_cmd": "./setup.sh",
    "hooks": {
        "guard": "cfg(kani) (no source hooks in /repo: harness modules are injected into a scratch copy)",
        "enable": "checks copy /repo's working tree to a scratch dir, append `#[cfg(kani)] mod verif_*;` lines and run cargo kani / the MIR executor there",
        "baseline_off_cmd": "cd /repo && cargo test --workspace --no-fail-fast --offline",
        "source_commits": [],
        "add_only": True,
    },
    "engines": [
        {"name": "kani-inject (E1)", "path": "/verif/lib/kani.py", "serves_properties": sorted(registry.engine_props("kani")),
         "kind_free_text": "Kani 0.68/CBMC bounded model checking of arroy's real functions, harnesses injected as cfg(kani) child modules into a scratch copy of the current tree; environment (heed/roaring/tempfile/memmap2) replaced by small models"},
        {"name": "mirsym (E2)", "path": "/verif/lib/mirsym", "serves_properties": sorted(registry.engine_props("mirsym")),
         "kind_free_text": "forking symbolic executor over rustc MIR (regenerated from the current sources on every run) with z3 deciding path feasibility and assertions"},
    ],
    "checks": checks,
    "not_applicable": [{"property_id": k, "reason": v} for k, v in sorted(NA.items())],
    "notes": "Solver-based checking only. Exit 0 = all obligations held within the stated bounds; 1 = replayed violation not listed in known_findings.json; 2 = inconclusive (timeout/OOM/unsupported/compile failure/non-reproducing counterexample).",
}
json.dump(man, open('/verif/MANIFEST.json', 'w'), indent=1)
print("wrote MANIFEST.json with", len(checks), "checks")
