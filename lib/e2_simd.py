"""E2 obligation for C11 (a): structural equivalence of the distance kernels, for every length n.

`spaces::simple::{dot_product, euclidean_distance}` (the dispatchers) and the SSE / AVX kernels are
executed from their MIR with a concrete length n and symbolic element values.  Float values are
abstracted to reals: `+` is real addition (so the check is *modulo re-association of the sum*),
`a - b` and `a * b` are uninterpreted functions (multiplication commutative by canonical argument
order; `fmadd(a, b, c) = a*b + c`; `powi(x, 2) = x*x`), x86 intrinsics are lane-wise functions per
Intel's documented semantics, loads are bounds-checked against n.  CPU-feature detection answers are
symbolic, so all three dispatch outcomes (AVX+FMA / SSE / scalar) are covered for every n.
The query per (kernel, n, dispatch path):  kernel(a, b) = sum_i (a_i - b_i)^2   resp.  sum_i a_i*b_i,
i.e. every index is used exactly once, with the right pairing and the right remainder.  No numeric
error bound is claimed."""
import re
import time

import z3

from mirsym import engine as E
from mirsym import models as M
from mirsym import world as _W  # noqa: F401  (registers Range/Vec models)
from mirsym.engine import BV, Agg, Cell, Opaque, Ref, PANIC, Unknown
from mirsym.models import fork_on, mk_option, one, unit

R = z3.RealSort()
FSUB = z3.Function("fsub", R, R, R)
FMUL = z3.Function("fmul", R, R, R)


def fmul(a, b):
    # commutativity by canonical argument order (trusted axiom: IEEE multiplication commutes)
    if a.get_id() > b.get_id():
        a, b = b, a
    return FMUL(a, b)


class SimdEngine(E.Engine):
    def binop(self, op, a, b, ty):
        if isinstance(a, z3.ArithRef) or isinstance(b, z3.ArithRef):
            if op == "Add":
                return a + b
            if op == "Sub":
                return FSUB(a, b)
            if op == "Mul":
                return fmul(a, b)
            raise Unknown("float op on the real abstraction: " + op)
        return super().binop(op, a, b, ty)

    def const(self, tok, fr=None):
        m = re.match(r"const (-?[0-9.]+)f32$", tok)
        if m:
            return z3.RealVal(m.group(1))
        m = re.match(r"const (?:\w+::)*(\w+)$", tok)
        if m and m.group(1) in self.named_consts:
            return self.named_consts[m.group(1)]
        return super().const(tok, fr)


def vec(n_lanes, terms):
    return Agg(f"m{n_lanes * 32}", None, dict(enumerate(terms)))


def lanes(v):
    return [v.f[i] for i in sorted(v.f)]


def models_for(n):
    ms = []

    def reg(pat):
        def deco(f):
            ms.append((re.compile(pat), f))
            return f
        return deco

    def elem(st, ptr, k):
        base, off = ptr.f["base"], ptr.f["off"] + k
        if off < 0 or off >= n:
            st.env["oob"] = f"element {off} of a vector of length {n} is read"
            return z3.RealVal(0)
        st.env["reads"][base][off] = st.env["reads"][base].get(off, 0) + 1
        return z3.Real(f"{base}{off}")

    @reg(r"^UnalignedVector::<f32>::len$")
    def _(eng, st, callee, a, ty):
        return one(BV(n, 64))

    @reg(r"^UnalignedVector::<f32>::as_ptr$")
    def _(eng, st, callee, a, ty):
        v = eng.deref(a[0])
        return one(Agg("Ptr", None, {"base": v.data["base"], "off": 0}))

    @reg(r"^std::ptr::const_ptr::<impl \*const f32>::add$")
    def _(eng, st, callee, a, ty):
        k = z3.simplify(a[1])
        if not z3.is_bv_value(k):
            raise Unknown("symbolic pointer offset")
        return one(Agg("Ptr", None, {"base": a[0].f["base"], "off": a[0].f["off"] + k.as_long()}))

    @reg(r"^read_unaligned::<f32>$")
    def _(eng, st, callee, a, ty):
        return one(elem(st, a[0], 0))

    @reg(r"_mm_loadu_ps$")
    def _(eng, st, callee, a, ty):
        return one(vec(4, [elem(st, a[0], k) for k in range(4)]))

    @reg(r"_mm256_loadu_ps$")
    def _(eng, st, callee, a, ty):
        return one(vec(8, [elem(st, a[0], k) for k in range(8)]))

    @reg(r"_mm(256)?_setzero_ps$")
    def _(eng, st, callee, a, ty):
        return one(vec(8 if "256" in callee else 4, [z3.RealVal(0)] * (8 if "256" in callee else 4)))

    @reg(r"_mm(256)?_add_ps$")
    def _(eng, st, callee, a, ty):
        return one(vec(len(a[0].f), [x + y for x, y in zip(lanes(a[0]), lanes(a[1]))]))

    @reg(r"_mm(256)?_sub_ps$")
    def _(eng, st, callee, a, ty):
        return one(vec(len(a[0].f), [FSUB(x, y) for x, y in zip(lanes(a[0]), lanes(a[1]))]))

    @reg(r"_mm(256)?_mul_ps$")
    def _(eng, st, callee, a, ty):
        return one(vec(len(a[0].f), [fmul(x, y) for x, y in zip(lanes(a[0]), lanes(a[1]))]))

    @reg(r"_mm(256)?_fmadd_ps$")
    def _(eng, st, callee, a, ty):
        return one(vec(len(a[0].f), [fmul(x, y) + z for x, y, z in zip(lanes(a[0]), lanes(a[1]), lanes(a[2]))]))

    @reg(r"_mm_movehl_ps$")
    def _(eng, st, callee, a, ty):
        x, y = lanes(a[0]), lanes(a[1])
        return one(vec(4, [y[2], y[3], x[2], x[3]]))

    @reg(r"_mm_movehdup_ps$")
    def _(eng, st, callee, a, ty):
        x = lanes(a[0])
        return one(vec(4, [x[1], x[1], x[3], x[3]]))

    @reg(r"_mm_shuffle_ps::<(\d+)>$")
    def _(eng, st, callee, a, ty):
        imm = int(re.search(r"<(\d+)>$", callee).group(1))
        x, y = lanes(a[0]), lanes(a[1])
        return one(vec(4, [x[imm & 3], x[(imm >> 2) & 3], y[(imm >> 4) & 3], y[(imm >> 6) & 3]]))

    @reg(r"_mm_add_ss$")
    def _(eng, st, callee, a, ty):
        x, y = lanes(a[0]), lanes(a[1])
        return one(vec(4, [x[0] + y[0], x[1], x[2], x[3]]))

    @reg(r"_mm_cvtss_f32$")
    def _(eng, st, callee, a, ty):
        return one(a[0].f[0])

    @reg(r"_mm256_extractf128_ps::<(\d)>$")
    def _(eng, st, callee, a, ty):
        hi = int(re.search(r"<(\d)>$", callee).group(1))
        x = lanes(a[0])
        return one(vec(4, x[4:8] if hi else x[0:4]))

    @reg(r"_mm256_castps256_ps128$")
    def _(eng, st, callee, a, ty):
        return one(vec(4, lanes(a[0])[0:4]))

    @reg(r"^std::f32::<impl f32>::powi$")
    def _(eng, st, callee, a, ty):
        k = z3.simplify(a[1])
        if not (z3.is_bv_value(k) and k.as_long() == 2):
            raise Unknown("powi with an exponent other than 2")
        return one(fmul(a[0], a[0]))

    @reg(r"^std_detect::detect::arch::x86::__is_feature_detected::(\w+)$")
    def _(eng, st, callee, a, ty):
        name = callee.split("::")[-1]
        b = st.env["features"].setdefault(name, z3.Bool("cpu_has_" + name))
        return one(b)

    # ---- the plain loops are executed too (iterator adaptors modelled, the closure bodies from MIR)
    @reg(r"^UnalignedVector::<f32>::iter$")
    def _(eng, st, callee, a, ty):
        st.env["path"] = "scalar"
        base = eng.deref(a[0]).data["base"]
        ptr = Agg("Ptr", None, {"base": base, "off": 0})
        return one(Opaque("ElemIter", {"elems": [elem(st, ptr, k) for k in range(n)]}))

    @reg(r"^<std::iter::Map<std::slice::ChunksExact<'_, u8>, .*> as Iterator>::zip::<")
    def _(eng, st, callee, a, ty):
        x, y = a[0].data["elems"], a[1].data["elems"]
        return one(Opaque("ZipIter", {"pairs": [Agg("tuple", None, {0: p, 1: q}) for p, q in zip(x, y)]}))

    @reg(r"^<std::iter::Zip<.*> as Iterator>::map::<f32, ")
    def _(eng, st, callee, a, ty):
        return one(Opaque("MapIter", {"items": list(a[0].data["pairs"]), "f": a[1]}))

    @reg(r"^<std::iter::Map<std::iter::Zip<.*>, .*> as Iterator>::sum::<f32>$")
    def _(eng, st, callee, a, ty):
        return M.hof_start(eng, st, sum_step, {"items": list(a[0].data["items"]), "f": a[0].data["f"], "acc": z3.RealVal(0), "i": 0})

    @reg(r"^core::f32::<impl f32>::max$|^core::f32::<impl f32>::min$")
    def _(eng, st, callee, a, ty):
        return one((FMAXR if callee.endswith("max") else FMINR)(a[0], a[1]))

    return ms


FMAXR = z3.Function("f32_max_r", z3.RealSort(), z3.RealSort(), z3.RealSort())
FMINR = z3.Function("f32_min_r", z3.RealSort(), z3.RealSort(), z3.RealSort())


def sum_step(eng, st, job, last):
    if last is not None:
        job["acc"] = job["acc"] + last
    if job["i"] < len(job["items"]):
        x = job["items"][job["i"]]
        job["i"] += 1
        return ("call", job["f"], [x])
    return ("done", one(job["acc"]))
    return ms


def spec(kind, n, swapped=False):
    a = [z3.Real(f"a{i}") for i in range(n)]
    b = [z3.Real(f"b{i}") for i in range(n)]
    if swapped:
        a, b = b, a
    t = z3.RealVal(0)
    for i in range(n):
        if kind == "dot":
            t = t + fmul(a[i], b[i])
        else:
            d = FSUB(a[i], b[i])
            t = t + fmul(d, d)
    return t


INLINE = [
    (re.compile(r"^simple_sse::(dot|euclid)_similarity_sse$"), r"^simple_sse::{name}$"),
    (re.compile(r"^simple_avx::(dot|euclid)_similarity_avx$"), r"^simple_avx::{name}$"),
    (re.compile(r"^(dot_product|euclidean_distance)_non_optimized$"), r"^{name}$"),
    (re.compile(r"^hsum128_ps_sse$"), r"^hsum128_ps_sse$"),
    (re.compile(r"^hsum256_ps_avx$"), r"^hsum256_ps_avx$"),
]


def named_consts(ctx):
    """`const spaces::simple::MIN_DIM_SIZE_*: usize = { ... _0 = const N_usize ... }` items of the dump"""
    out = {}
    for name, f in ctx.fns.items():
        pass
    return out


def run_kernels(ctx, ns, deadline):
    res = {"paths": 0, "violations": [], "unknown": [], "shapes": [], "queries": 0, "solver_s": 0.0, "encoded": set()}
    consts = read_consts(ctx)
    for kind, fn_name in (("dot", "dot_product"), ("euclid", "euclidean_distance")):
        fn = ctx.fns.get(fn_name)
        if fn is None:
            res["unknown"].append(f"dispatcher {fn_name} not found in the MIR dump")
            continue
        seen_paths = {}
        for n in ns:
            if time.time() > deadline:
                res["unknown"].append(f"deadline reached at n={n}")
                break
            eng = SimdEngine(ctx.fns, ctx.structs, ctx.enums, models_for(n) + list(M.REGISTRY), INLINE, max_depth=2,
                             max_steps=20000)
            eng.named_consts = consts
            va, vb = Opaque("uvec", {"base": "a"}), Opaque("uvec", {"base": "b"})
            env = {"reads": {"a": {}, "b": {}}, "features": {}, "path": None}
            finals = eng.run(fn, [Ref(Cell(va)), Ref(Cell(vb))], env=env, pc=[])
            want = spec(kind, n)
            for f in finals:
                res["paths"] += 1
                feats = {k: str(z3.simplify(v)) for k, v in f.env["features"].items()}
                label = fn_name
                if f.status in ("unknown", "unwind"):
                    res["unknown"].append(f"{label} n={n}: {f.status}: {f.info}")
                    continue
                if f.status == "panic":
                    res["violations"].append({"shape": label, "clause": "panics: " + f.info, "pre": None,
                                              "values": {"n": n, "kernel": kind}})
                    continue
                if f.env.get("oob"):
                    res["violations"].append({"shape": label, "clause": "out-of-bounds read: " + f.env["oob"], "pre": None,
                                              "values": {"n": n, "kernel": kind}})
                    continue
                got = f.value
                s = z3.Solver()
                s.set("timeout", 20000)
                for c in f.pc:
                    s.add(c)
                s.add(got != want)
                t0 = time.time()
                r = s.check()
                res["queries"] += 1
                res["solver_s"] += time.time() - t0
                if r == z3.unknown:
                    res["unknown"].append(f"{label}: solver unknown")
                elif r == z3.sat:
                    m = s.model()
                    which = "scalar" if f.env.get("path") == "scalar" else ("avx" if z3.is_true(m.eval(f.env["features"].get("avx", z3.BoolVal(False)), model_completion=True)) and z3.is_true(m.eval(f.env["features"].get("fma", z3.BoolVal(False)), model_completion=True)) and n >= 32 else "sse")
                    missing = [i for i in range(n) if f.env["reads"]["a"].get(i, 0) != 1 or f.env["reads"]["b"].get(i, 0) != 1]
                    res["violations"].append({"shape": label, "clause": f"the {which} path of {fn_name} differs from the definition for length {n} (indices not used exactly once: {missing[:8]})",
                                              "pre": None, "values": {"n": n, "kernel": kind, "path": which}})
                seen_paths[len(finals)] = seen_paths.get(len(finals), 0) + 1
            res["encoded"] |= set(E.short(x) for x in eng.encoded)
        res["shapes"].append({"shape": fn_name, "paths": sum(k * v for k, v in seen_paths.items()), "ok_paths": len(ns),
                              "lengths": f"{min(ns)}..{max(ns)} ({len(ns)} values)"})
    res["encoded"] = sorted(res["encoded"])
    res["solver_s"] = round(res["solver_s"], 2)
    return res


def read_consts(ctx):
    """named usize constants of spaces::simple, read from the scratch sources (value expressions are literals)"""
    out = {}
    src = getattr(ctx, "simple_rs", None)
    if src:
        for m in re.finditer(r"const (\w+): usize = (\d+);", src):
            out[m.group(1)] = BV(int(m.group(2)), 64)
    return out


def simd_scenario(v):
    vals = v["values"]
    return f"simd kernel={vals.get('kernel')} n={vals.get('n')}\n"


def obligation(o, tier, seed):
    import e2
    import native
    import e2_tree
    from driver import Outcome
    try:
        ctx = e2.context(True)
    except RuntimeError as e:
        return [Outcome(o["id"], "mirsym", "inconclusive", str(e))]
    if tier == "thorough":
        ns = list(range(1, 301))
    else:
        ns = sorted(set(list(range(1, 41)) + [47, 48, 49, 63, 64, 65, 79, 80, 81, 95, 96, 97, 127, 128, 129, 255, 256, 257, 299, 300]))
    r = run_kernels(ctx, ns, time.time() + (3000 if tier == "thorough" else 900))
    return e2_tree.outcomes_from(o, r, "simd", native, e2, Outcome)
