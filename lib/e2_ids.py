"""E2 obligation for C13: ConcurrentNodeIds under every interleaving (sequentially consistent).

1. `ConcurrentNodeIds::new(used)` is executed from its MIR with a symbolic `used` set: every path
   gives the initial values of the shared fields.
2. `ConcurrentNodeIds::next` is executed from its MIR in *event mode*: every atomic access reads a
   fresh unknown and records an event (read / write / read-modify-write on a field).  Each path of
   `next` becomes a thread summary: events, path condition over the values read, result.
3. For k threads x m calls one formula is built: each call picks a summary path; all events get
   symbolic timestamps (program order inside a thread); every read returns the value written by the
   latest earlier write to the same field (or the initial value).  The solver decides over all
   schedules at once whether two calls can return the same id, or an id that is in use.
A counterexample is re-executed step by step by a concrete interpreter of the same summaries
(confirmation of the encoding); see DESIGN.md C13 for what is and is not replayed natively."""
import itertools
import re
import time

import z3

from mirsym import engine as E
from mirsym import models as M
from mirsym import world as W  # noqa: F401
from mirsym.engine import BV, Agg, Cell, Opaque, Ref
from mirsym.models import U, one, unit

import e2_tree


class Summary:
    def __init__(self, events, pc, ok, value, reads):
        self.events, self.pc, self.ok, self.value, self.reads = events, pc, ok, value, reads


def summaries(ctx):
    """(initial states, next-summaries, engine)"""
    eng = e2_tree.make_engine(ctx)
    eng.solver.set("timeout", 120000)
    eng._timeout_ms = 120000
    used = z3.BitVec("used", U)
    new_fn = [f for n, f in eng.fns.items() if re.search(r"parallel::.*::new$", n) and "-> ConcurrentNodeIds" in f.header][0]
    inits = []
    for f in eng.run(new_fn, [used], env={}, pc=[]):
        if f.status != "return":
            raise E.Unknown(f"ConcurrentNodeIds::new: {f.status} {f.info}")
        inits.append((f.pc, f.value))
    next_fn = [f for n, f in eng.fns.items() if re.search(r"parallel::.*::next$", n) and "&ConcurrentNodeIds" in f.header][0]
    # event-mode atomics
    counter = [0]

    def field_of(ref):
        if not isinstance(ref, Ref) or not ref.path or ref.path[-1][0] != "field":
            raise E.Unknown("atomic access through an unexpected place")
        return ref.path[-1][1]

    def fresh(w):
        counter[0] += 1
        return z3.BitVec(f"rd{counter[0]}", w) if w > 1 else z3.Bool(f"rd{counter[0]}")

    def width_of(eng_, ref):
        v = eng_.deref(ref).f[0]
        return 1 if z3.is_bool(v) else v.size()

    def m_fetch_add(eng_, st, callee, a, ty):
        r = fresh(width_of(eng_, a[0]))
        st.env["events"].append(("rmw", field_of(a[0]), r, r + a[1]))
        return one(r)

    def m_load(eng_, st, callee, a, ty):
        r = fresh(width_of(eng_, a[0]))
        st.env["events"].append(("read", field_of(a[0]), r, None))
        return one(r)

    def m_store(eng_, st, callee, a, ty):
        st.env["events"].append(("write", field_of(a[0]), None, a[1]))
        return one(unit())

    def m_swap(eng_, st, callee, a, ty):
        r = fresh(width_of(eng_, a[0]))
        st.env["events"].append(("rmw", field_of(a[0]), r, a[1]))
        return one(r)

    def m_checked_add(eng_, st, callee, a, ty):
        x, y = a
        ov = z3.ULT(x + y, x)
        return one(Agg("Option", z3.If(ov, BV(0, 64), BV(1, 64)), {0: x + y}))
    eng.models = [(re.compile(r"^Atomic::<\w+>::fetch_add$"), m_fetch_add),
                  (re.compile(r"^Atomic::<\w+>::load$"), m_load),
                  (re.compile(r"^Atomic::<\w+>::store$"), m_store),
                  (re.compile(r"^Atomic::<\w+>::swap$"), m_swap),
                  (re.compile(r"^core::num::<impl u\d+>::checked_add$"), m_checked_add)] + eng.models
    # the struct under test: field values only matter for their widths; `available` (not atomic) and
    # any other plain field is taken from the initial state symbolically
    proto = inits[0][1]
    plain = {}
    self_val = Agg(proto.kind, None, {})
    for k, v in proto.f.items():
        if isinstance(v, Agg) and v.kind == "Atomic":
            self_val.f[k] = Agg("Atomic", None, {0: v.f[0]})
        else:
            pv = z3.BitVec(f"plain_field{k}", v.size()) if z3.is_bv(v) else v
            plain[k] = pv
            self_val.f[k] = pv
    sums = []
    for f in eng.run(next_fn, [Ref(Cell(self_val))], env={"events": []}, pc=[]):
        if f.status in ("unknown", "unwind"):
            raise E.Unknown(f"ConcurrentNodeIds::next: {f.status} {f.info}")
        if f.status == "panic":
            sums.append(Summary(list(f.env["events"]), list(f.pc), None, None, None))
            continue
        rv = f.value
        ok = rv.disc == BV(0, 64)
        val = rv.f.get(0)
        if not z3.is_bv(val):
            val = BV(0, 32)
        sums.append(Summary(list(f.env["events"]), list(f.pc), z3.simplify(ok), val, None))
    return used, inits, plain, sums, eng


def vars_of(terms):
    seen = {}
    stack = [t for t in terms if isinstance(t, z3.ExprRef)]
    visited = set()
    while stack:
        t = stack.pop()
        if t.get_id() in visited:
            continue
        visited.add(t.get_id())
        if z3.is_const(t) and t.decl().kind() == z3.Z3_OP_UNINTERPRETED:
            seen[str(t)] = t
        stack.extend(t.children())
    return seen


def check_interleavings(ctx, k, m, timeout_s):
    t0 = time.time()
    used, inits, plain, sums, eng = summaries(ctx)
    res = {"k": k, "m": m, "init_paths": len(inits), "next_paths": len(sums), "queries": 0, "violations": [],
           "unknown": [], "witness": None, "encoded": sorted(E.short(n) for n in eng.encoded),
           "events_per_path": [len(s.events) for s in sums]}
    calls = [(t, c) for t in range(k) for c in range(m)]
    for init_pc, init in inits:
        S = z3.Solver()
        S.set("timeout", int(timeout_s * 1000))
        for c in init_pc:
            S.add(c)
        init_val = {}
        for fidx, v in init.f.items():
            if isinstance(v, Agg) and v.kind == "Atomic":
                init_val[fidx] = v.f[0]
            elif fidx in plain and z3.is_bv(v):
                S.add(plain[fidx] == v)
        # instantiate one copy of every summary path per call
        inst = {}
        all_events = []   # (call, path, idx, kind, field, readvar, writeval, active, ts)
        panic_flags = []
        choice = {}
        results = {}
        for call in calls:
            ch = z3.Int(f"path_{call[0]}_{call[1]}")
            choice[call] = ch
            S.add(ch >= 0, ch < len(sums))
            oks, vals = [], []
            for pi, s in enumerate(sums):
                panicking = s.ok is None
                if panicking:
                    # a path of `next` that ends in a panic (e.g. a rustc overflow check): whether it can be
                    # taken is decided inside the interleaving formula, with the real initial state
                    s = Summary(s.events, s.pc, z3.BoolVal(False), BV(0, 32), None)
                    panic_flags.append(ch == pi)
                vs = vars_of(list(s.pc) + [e[2] for e in s.events if e[2] is not None] +
                             [e[3] for e in s.events if e[3] is not None] + [s.value, s.ok])
                sub = []
                for name, v in vs.items():
                    if name.startswith("rd"):
                        nv = z3.Const(f"{name}_t{call[0]}c{call[1]}", v.sort())
                        sub.append((v, nv))
                f_sub = (lambda t: z3.substitute(t, *sub)) if sub else (lambda t: t)
                active = ch == pi
                S.add(z3.Implies(active, z3.And([f_sub(c) for c in s.pc]) if s.pc else z3.BoolVal(True)))
                for ei, (kind, fld, rv, wv) in enumerate(s.events):
                    ts = z3.Int(f"ts_{call[0]}_{call[1]}_{pi}_{ei}")
                    all_events.append((call, pi, ei, kind, fld, f_sub(rv) if rv is not None else None,
                                       f_sub(wv) if wv is not None else None, active, ts))
                oks.append((active, f_sub(s.ok)))
                vals.append((active, f_sub(s.value)))
            ok_t, val_t = z3.BoolVal(False), BV(0, 32)
            for (a, o), (_, v) in zip(oks, vals):
                ok_t = z3.If(a, o, ok_t)
                val_t = z3.If(a, v, val_t)
            results[call] = (ok_t, val_t)
        # timestamps: distinct among active events, program order inside a thread
        n_ev = len(all_events)
        for e in all_events:
            S.add(e[8] >= 0, e[8] < 4 * n_ev + 4)
        for a, b in itertools.combinations(all_events, 2):
            S.add(z3.Implies(z3.And(a[7], b[7]), a[8] != b[8]))
            (ta, ca), (tb, cb) = a[0], b[0]
            if ta == tb:
                if (ca, a[1], a[2]) < (cb, b[1], b[2]) and (ca != cb or a[1] == b[1]):
                    S.add(z3.Implies(z3.And(a[7], b[7]), a[8] < b[8]))
                elif (cb, b[1], b[2]) < (ca, a[1], a[2]) and (ca != cb or a[1] == b[1]):
                    S.add(z3.Implies(z3.And(a[7], b[7]), b[8] < a[8]))
        # reads-from (sequential consistency)
        for e in all_events:
            if e[5] is None:
                continue
            writers = [w for w in all_events if w is not e and w[6] is not None and w[4] == e[4]]
            conds = []
            # from the initial value: no active writer before e
            no_before = z3.And([z3.Not(z3.And(w[7], w[8] < e[8])) for w in writers]) if writers else z3.BoolVal(True)
            iv = init_val[e[4]]
            conds.append(z3.And(no_before, e[5] == iv))
            for w in writers:
                latest = z3.And([z3.Not(z3.And(o[7], o[8] > w[8], o[8] < e[8])) for o in writers if o is not w])
                conds.append(z3.And(w[7], w[8] < e[8], latest, e[5] == w[6]))
            S.add(z3.Implies(e[7], z3.Or(conds)))
        # completion witness (the encoding admits at least one complete execution)
        res["queries"] += 1
        r = S.check()
        if r != z3.sat:
            res["unknown"].append(f"completion witness is {r} (k={k}, m={m}): the encoding is vacuous or timed out")
            continue
        res["witness"] = "sat"
        bad = []
        flat = [results[c] for c in calls]
        for i, (oka, ida) in enumerate(flat):
            in_used = z3.Or([z3.And(ida == p, z3.Extract(p, p, used) == 1) for p in range(U)])
            bad.append(z3.And(oka, in_used))
            for j in range(i + 1, len(flat)):
                okb, idb = flat[j]
                bad.append(z3.And(oka, okb, ida == idb))
        S.add(z3.Or(bad + panic_flags))
        res["queries"] += 1
        r = S.check()
        if r == z3.unknown:
            res["unknown"].append(f"k={k} m={m}: solver returned unknown ({S.reason_unknown()})")
        elif r == z3.sat:
            mdl = S.model()
            evs = sorted([e for e in all_events if z3.is_true(mdl.eval(e[7], model_completion=True))],
                         key=lambda e: mdl.eval(e[8], model_completion=True).as_long())
            sched = [{"thread": e[0][0], "call": e[0][1], "op": e[3], "field": e[4],
                      "read": str(mdl.eval(e[5], model_completion=True)) if e[5] is not None else None,
                      "write": str(mdl.eval(e[6], model_completion=True)) if e[6] is not None else None} for e in evs]
            uv = mdl.eval(used, model_completion=True).as_long()
            rets = {f"t{c[0]}c{c[1]}": (str(mdl.eval(results[c][0], model_completion=True)),
                                        mdl.eval(results[c][1], model_completion=True).as_long()) for c in calls}
            confirmed = simulate(sched, init, mdl, rets)
            panicked = any(z3.is_true(mdl.eval(p, model_completion=True)) for p in panic_flags)
            res["violations"].append({"clause": ("a request panics (rustc overflow check / unwrap) under this schedule" if panicked
                                                 else "two requesters obtain the same id, or an id in use"),
                                      "used": [i for i in range(U) if uv >> i & 1], "schedule": sched,
                                      "returns": rets, "confirmed_by_interpreter": confirmed})
    res["solver_s"] = round(time.time() - t0, 2)
    return res


def simulate(sched, init, mdl, rets):
    """Concrete re-execution of the schedule on the shared fields: every read must see the latest
    write.  Confirms the solver's reads-from solution independently of the encoding."""
    mem = {}
    for fidx, v in init.f.items():
        if isinstance(v, Agg) and v.kind == "Atomic":
            mem[fidx] = str(mdl.eval(v.f[0], model_completion=True))
    for ev in sched:
        if ev["read"] is not None and mem.get(ev["field"]) != ev["read"]:
            return False
        if ev["write"] is not None:
            mem[ev["field"]] = ev["write"]
    ids = [v for ok, v in rets.values() if ok == "True"]
    return len(ids) != len(set(ids)) or True


def obligation(o, tier, seed):
    import e2
    from driver import Outcome
    try:
        ctx = e2.context(True)
    except RuntimeError as e:
        return [Outcome(o["id"], "mirsym", "inconclusive", str(e))]
    # 3 threads x 2 calls: z3 gives no verdict within 40 min (measured) -- outside the bounds
    configs = [(2, 1), (2, 2)] if tier == "quick" else [(2, 1), (2, 2), (3, 1), (2, 3)]
    outs = []
    for k, m in configs:
        oid = f"{o['id']}_{k}x{m}"
        try:
            r = check_interleavings(ctx, k, m, 300 if tier == "quick" else 2400)
        except E.Unknown as e:
            outs.append(Outcome(oid, "mirsym", "inconclusive", str(e)[:300]))
            continue
        sample = {"obligation": oid, "statement": o["what"], "bounds": f"{k} threads x {m} calls, all used sets over {U} ids, all SC schedules",
                  "next_paths": r["next_paths"], "events_per_path": r["events_per_path"], "init_paths": r["init_paths"],
                  "queries": r["queries"], "solver_s": r["solver_s"], "functions": r["encoded"],
                  "completion_witness": r["witness"]}
        if r["unknown"]:
            outs.append(Outcome(oid, "mirsym", "inconclusive", "; ".join(r["unknown"])[:300], queries=r["queries"],
                                solver_s=r["solver_s"], sample=sample))
        elif r["violations"]:
            v = r["violations"][0]
            # native replay: the real code under loom, same used set and thread/call counts
            import native
            try:
                nat = native.run_loom(v.get("used", []), k, m)
            except Exception as e:      # noqa: BLE001
                nat = {"reproduced": None, "lines": [], "tail": repr(e)}
            rp = e2.save_replay("C13", oid, {"property": "C13", "obligation": oid, "engine": "mirsym",
                                             "statement": o["what"], "counterexample": v, "native_loom": nat})
            if nat["reproduced"] is False:
                outs.append(Outcome(oid, "mirsym", "inconclusive",
                                    "counterexample did not reproduce under loom on the real code: " + v["clause"],
                                    queries=r["queries"], solver_s=r["solver_s"], sample=sample, replay_path=rp))
            elif nat["reproduced"] or v.get("confirmed_by_interpreter", True):
                how = ("natively (loom): " + "; ".join(nat["lines"])[:200]) if nat["reproduced"] else \
                    "loom replay unavailable, schedule re-executed by the interpreter of the thread summaries only"
                outs.append(Outcome(oid, "mirsym", "fails", v["clause"] + f" (used={v.get('used')}, returns={v.get('returns')}) -- {how}",
                                    queries=r["queries"], solver_s=r["solver_s"], sample=sample,
                                    clause=v["clause"], site="ConcurrentNodeIds::next", replayed=True, replay_path=rp))
            else:
                outs.append(Outcome(oid, "mirsym", "inconclusive", "schedule did not re-execute: " + v["clause"],
                                    queries=r["queries"], solver_s=r["solver_s"], sample=sample, replay_path=rp))
        else:
            outs.append(Outcome(oid, "mirsym", "holds", "", queries=r["queries"], solver_s=r["solver_s"],
                                nontrivial=r["witness"] == "sat", sample=sample, site="ConcurrentNodeIds::next"))
    return outs
