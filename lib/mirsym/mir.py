"""rustc MIR of the *current* sources: dump generation and a small parser.

The dump is regenerated on every run from a scratch copy of /repo's working tree
(`cargo +nightly rustc --lib -- -Zunpretty=mir -C overflow-checks=on`)."""
import os
import re
import sys

sys.path.insert(0, os.path.dirname(os.path.dirname(os.path.abspath(__file__))))
from common import Scratch, run  # noqa: E402


def dump_mir(scratch):
    """Returns (path of the MIR dump, seconds) or raises RuntimeError."""
    scratch.standalone_workspace()
    # a fresh copy has no fingerprints, so rustc always runs
    out_path = os.path.join(scratch.dir, "arroy.mir")
    cmd = ["cargo", "+nightly", "rustc", "--offline", "--lib", "--target-dir",
           os.path.join(scratch.dir, "target-mir"), "--", "-Zunpretty=mir",
           "-C", "debug-assertions=off", "-C", "overflow-checks=on"]
    env = {"RUSTUP_TOOLCHAIN": "nightly"}
    import subprocess, time
    t0 = time.time()
    with open(out_path, "w") as f:
        p = subprocess.run(cmd, cwd=scratch.repo, stdout=f, stderr=subprocess.PIPE, text=True,
                           env={**os.environ, "CARGO_NET_OFFLINE": "true"}, timeout=900)
    if p.returncode != 0 or os.path.getsize(out_path) < 1000:
        raise RuntimeError("MIR dump failed: " + p.stderr[-600:])
    return out_path, time.time() - t0


class Fn:
    def __init__(self, name, header):
        self.name = name
        self.header = header
        self.blocks = {}        # bb -> [statements..., terminator]
        self.local_types = {}   # n -> type string
        self.nargs = 0
        self.cleanup = set()
        self.debug = {}         # source-level variable name -> [local numbers] (in declaration order)


class FnTable(dict):
    """{full fn name: Fn} plus the one-line constant items of the dump (`const X: T = const V;`)."""

    def __init__(self):
        super().__init__()
        self.const_values = {}


def parse_mir(path):
    """Parse the whole dump: {full fn name: Fn}."""
    fns = FnTable()
    cur = None
    bb = None
    with open(path) as f:
        for line in f:
            if line.startswith("fn ") or line.startswith("const ") or line.startswith("static "):
                if not line.startswith("fn "):
                    cur = None
                    vm = re.match(r"const (.*?): [^=]* = (const [^;]*);$", line.rstrip("\n"))
                    if vm:
                        fns.const_values[vm.group(1)] = vm.group(2)
                    cm = re.match(r"const (.*promoted\[\d+\]): (.*) = \{$", line.rstrip("\n"))
                    if cm:
                        cur = Fn("const:" + cm.group(1), line.rstrip("\n"))
                        cur.local_types[0] = cm.group(2)
                        fns[cur.name] = cur
                        bb = None
                    continue
                header = line.rstrip("\n")
                m = re.match(r"fn (.*?)\((.*)\) -> (.*) \{$", header)
                if not m:
                    cur = None
                    continue
                name = m.group(1)
                cur = Fn(name, header)
                # count arguments: `_N: T` at top level
                cur.nargs = len(re.findall(r"(?:^|, )_(\d+): ", m.group(2)))
                for am in re.finditer(r"(?:^|, )_(\d+): ((?:[^,<>()\[\]]|<[^<>]*(?:<[^<>]*(?:<[^<>]*>[^<>]*)*>[^<>]*)*>|\([^()]*\)|\[[^\[\]]*\])+)", m.group(2)):
                    cur.local_types[int(am.group(1))] = am.group(2).strip()
                cur.local_types[0] = m.group(3).strip()
                fns[name] = cur
                bb = None
                continue
            if cur is None:
                continue
            if line.startswith("}"):
                cur = None
                continue
            s = line.strip()
            m = re.match(r"bb(\d+)( \(cleanup\))?: \{$", s)
            if m:
                bb = int(m.group(1))
                cur.blocks[bb] = []
                if m.group(2):
                    cur.cleanup.add(bb)
                continue
            if bb is None:
                m = re.match(r"let (?:mut )?_(\d+): (.*);$", s)
                if m:
                    cur.local_types[int(m.group(1))] = m.group(2)
                m = re.match(r"debug (\w+) => _(\d+);$", s)
                if m:
                    cur.debug.setdefault(m.group(1), []).append(int(m.group(2)))
                continue
            if s == "}":
                bb = None
                continue
            if s == "" or s.startswith(("debug ", "scope ", "let ")):
                continue
            if s.startswith(("StorageLive", "StorageDead", "FakeRead", "AscribeUserType", "PlaceMention",
                             "Retag", "nop", "Coverage", "ConstEvalCounter")):
                continue
            cur.blocks[bb].append(s.rstrip(";"))
    return fns


def find_fn(fns, pattern):
    """Unique function whose full name matches the regex `pattern`."""
    hits = [n for n in fns if re.search(pattern, n)]
    if len(hits) != 1:
        raise KeyError(f"MIR function matching {pattern!r}: {len(hits)} hits {hits[:5]}")
    return fns[hits[0]]


# ---------------------------------------------------------------------------------------------
# struct / enum layouts (field and variant order) read off the current sources

def parse_layouts(src_dir):
    structs, enums = {}, {}
    for root, _d, files in os.walk(src_dir):
        for f in files:
            if not f.endswith(".rs"):
                continue
            txt = open(os.path.join(root, f)).read()
            txt = re.sub(r"//[^\n]*", "", txt)
            for m in re.finditer(r"\bstruct (\w+)\s*(?:<[^{;(]*>)?\s*(?:where[^{]*)?\{", txt):
                body = _balanced(txt, m.end() - 1)
                fields = []
                for part in _split_top(body, ","):
                    fm = re.match(r"\s*(?:#\[[^\]]*\]\s*)*(?:pub(?:\([^)]*\))?\s+)?(\w+)\s*:", part, re.S)
                    if fm:
                        fields.append(fm.group(1))
                structs.setdefault(m.group(1), fields)
            for m in re.finditer(r"\benum (\w+)\s*(?:<[^{;(]*>)?\s*\{", txt):
                body = _balanced(txt, m.end() - 1)
                variants = []
                for part in _split_top(body, ","):
                    vm = re.match(r"\s*(?:#\[[^\]]*\]\s*)*(\w+)", part, re.S)
                    if vm:
                        variants.append(vm.group(1))
                enums.setdefault(m.group(1), variants)
    return structs, enums


def _balanced(txt, i):
    assert txt[i] == "{"
    d, j = 0, i
    while j < len(txt):
        if txt[j] == "{":
            d += 1
        elif txt[j] == "}":
            d -= 1
            if d == 0:
                return txt[i + 1:j]
        j += 1
    return txt[i + 1:]


def _split_top(s, sep):
    out, d, cur = [], 0, ""
    for ch in s:
        if ch in "([{<":
            d += 1
        elif ch in ")]}>":
            d -= 1
        if ch == sep and d <= 0:
            out.append(cur)
            cur = ""
            d = 0
        else:
            cur += ch
    if cur.strip():
        out.append(cur)
    return out
