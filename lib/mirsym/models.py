"""Model table of the MIR executor: contracts of std / roaring / heed calls in SMT terms.

Every handler has the signature  h(engine, state, callee, args, dst_type) -> list of outcomes,
an outcome being (value, extra path condition or None, state or None).  Returning several outcomes
forks the path (the handler clones the state for all but the last).  `PushCall` as a value makes
the engine execute a MIR function / closure and continue with its return value."""
import re

import z3

from .engine import PANIC, Agg, Cell, FnItem, Opaque, Ref, Unknown, BV

U = 16          # width of the bit-set that models RoaringBitmap (item / node id universe 0..U)

REGISTRY = []


def model(pattern):
    def deco(f):
        REGISTRY.append((re.compile(pattern), f))
        return f
    return deco


def one(v):
    return [(v, None, None)]


def unit():
    return Agg("unit")


def mk_option(v=None):
    if v is None:
        return Agg("Option", BV(0, 64), {})
    return Agg("Option", BV(1, 64), {0: v})


def mk_ok(v):
    return Agg("Result", BV(0, 64), {0: v})


def mk_err(v):
    return Agg("Result", BV(1, 64), {0: v})


def bit(x):
    """singleton bit-set for a 32-bit id term (ids >= U are outside the universe: no bit)"""
    if x.size() > U:
        lo = z3.Extract(U - 1, 0, x)
    else:
        lo = z3.ZeroExt(U - x.size(), x)
    return z3.If(z3.ULT(x, BV(U, x.size())), BV(1, U) << lo, BV(0, U))


def popcount(b, w=64):
    """number of set bits, computed in 8 bits (the universe is <= 64 ids) and zero-extended"""
    r = BV(0, 8)
    for q in range(b.size()):
        r = r + z3.ZeroExt(7, z3.Extract(q, q, b))
    return z3.ZeroExt(w - 8, r) if w > 8 else r


def lowest(b):
    """(index of lowest set bit as u32, remaining bits) -- b must be non-zero"""
    idx = BV(0, 32)
    for q in reversed(range(b.size())):
        idx = z3.If(z3.Extract(q, q, b) == 1, BV(q, 32), idx)
    return idx, b & (b - 1)


def highest(b):
    idx = BV(0, 32)
    for q in range(b.size()):
        idx = z3.If(z3.Extract(q, q, b) == 1, BV(q, 32), idx)
    return idx


def nth_set_bit(b, n):
    """Option<u32> of the n-th (0-based) set bit: (is_some, value)"""
    some, val = z3.BoolVal(False), BV(0, 32)
    below = BV(0, 32)
    for p in range(b.size()):
        here = z3.Extract(p, p, b) == 1
        hit = z3.And(here, below == n)
        some = z3.Or(some, hit)
        val = z3.If(hit, BV(p, 32), val)
        below = below + z3.If(here, BV(1, 32), BV(0, 32))
    return some, val


class PushCall:
    """Outcome value: run a MIR function (or closure) and store its return value."""

    def __init__(self, fn, args):
        self.fn, self.args = fn, args


def bitmap_of(eng, v):
    v = eng.deref(v)
    while isinstance(v, Ref):
        v = eng.deref(v)
    if isinstance(v, Agg) and v.kind == "Cow":
        v = eng.deref(v.f[0])
    if not z3.is_bv(v):
        raise Unknown(f"expected a bitmap, got {v!r}")
    return v


def fork_on(eng, st, cond):
    """[(state, cond_value)] for the feasible truth values of `cond` (clones when both are)."""
    c = z3.simplify(cond)
    if z3.is_true(c):
        return [(st, True)]
    if z3.is_false(c):
        return [(st, False)]
    t = eng.feasible(st.pc, c)
    f = eng.feasible(st.pc, z3.Not(c))
    out = []
    if t and f:
        s2 = st.clone()
        s2.pc.append(z3.Not(c))
        st.pc.append(c)
        return [(st, True), (s2, False)]
    if t:
        st.pc.append(c)
        return [(st, True)]
    if f:
        st.pc.append(z3.Not(c))
        return [(st, False)]
    return out


def concretize(eng, st, term, candidates):
    """Fork on `term == c` for each candidate constant; returns [(state, int)]; a residual path
    (none of the candidates) is returned with value None."""
    t = z3.simplify(term)
    if z3.is_bv_value(t):
        return [(st, t.as_long())]
    out = []
    rest = []
    for c in candidates:
        eq = t == BV(c, t.size())
        if eng.feasible(st.pc + rest, eq):
            s2 = st.clone()
            s2.pc.extend(rest)
            s2.pc.append(eq)
            out.append((s2, c))
        rest.append(z3.Not(eq))
    if eng.feasible(st.pc, z3.And(rest) if rest else z3.BoolVal(True)):
        st.pc.extend(rest)
        out.append((st, None))
    return out


# ---------------------------------------------------------------------------------- std: Try / Option / Result
@model(r" as Try>::branch$")
def m_try_branch(eng, st, callee, a, ty):
    r = a[0]
    if not isinstance(r, Agg):
        raise Unknown("Try::branch on " + repr(r))
    if r.kind == "Option":
        # Option: None -> Break(None), Some(x) -> Continue(x)
        out = []
        for s2, some in fork_on(eng, st, r.disc == BV(1, 64)):
            rr = r if s2 is st else None
            val = Agg("ControlFlow", BV(0, 64), {0: r.f.get(0)}) if some else Agg("ControlFlow", BV(1, 64), {0: mk_option()})
            out.append((val, None, s2))
        return out
    # Result<T, E>: Ok(v) -> Continue(v), Err(e) -> Break(Err(e))
    out = []
    for s2, is_ok in fork_on(eng, st, r.disc == BV(0, 64)):
        if is_ok:
            out.append((Agg("ControlFlow", BV(0, 64), {0: r.f.get(0)}), None, s2))
        else:
            out.append((Agg("ControlFlow", BV(1, 64), {0: Agg("Result", BV(1, 64), {0: r.f.get(0)})}), None, s2))
    return out


@model(r" as FromResidual<.*>>::from_residual$")
def m_from_residual(eng, st, callee, a, ty):
    r = a[0]
    if isinstance(r, Agg) and r.kind == "Option":
        return one(mk_option())
    err = r.f.get(0) if isinstance(r, Agg) else r
    return one(mk_err(convert_error(err)))


def convert_error(e):
    """From<heed::Error>/From<io::Error> for arroy::Error: the payload is kept as is."""
    return e


@model(r"^Option::<.*>::unwrap$|^Option::<.*>::expect$")
def m_option_unwrap(eng, st, callee, a, ty):
    o = a[0]
    out = []
    for s2, some in fork_on(eng, st, o.disc == BV(1, 64)):
        out.append((o.f.get(0) if some else PANIC, None, s2))
    return out


@model(r"^(?:std::result::)?Result::<.*>::unwrap$|^(?:std::result::)?Result::<.*>::expect$")
def m_result_unwrap(eng, st, callee, a, ty):
    o = a[0]
    out = []
    for s2, okk in fork_on(eng, st, o.disc == BV(0, 64)):
        out.append((o.f.get(0) if okk else PANIC, None, s2))
    return out


@model(r"^(?:std::result::)?Result::<.*>::is_ok$")
def m_result_is_ok(eng, st, callee, a, ty):
    return one(eng.deref(a[0]).disc == BV(0, 64))


@model(r"^(?:std::result::)?Result::<.*>::is_err$")
def m_result_is_err(eng, st, callee, a, ty):
    return one(eng.deref(a[0]).disc == BV(1, 64))


@model(r"^(?:std::result::)?Result::<.*>::ok$")
def m_result_ok(eng, st, callee, a, ty):
    r = a[0]
    out = []
    for s2, okk in fork_on(eng, st, r.disc == BV(0, 64)):
        out.append((mk_option(r.f.get(0)) if okk else mk_option(), None, s2))
    return out


@model(r"^(?:std::result::)?Result::<.*>::unwrap_or$")
def m_result_unwrap_or(eng, st, callee, a, ty):
    r, d = a
    out = []
    for s2, okk in fork_on(eng, st, r.disc == BV(0, 64)):
        out.append((r.f.get(0) if okk else d, None, s2))
    return out


@model(r"^Option::<.*>::is_some$")
def m_is_some(eng, st, callee, a, ty):
    return one(eng.deref(a[0]).disc == BV(1, 64))


@model(r"^Option::<.*>::is_none$")
def m_is_none(eng, st, callee, a, ty):
    return one(eng.deref(a[0]).disc == BV(0, 64))


@model(r"^Option::<.*>::map_or::<")
def m_map_or(eng, st, callee, a, ty):
    o, default, f = a
    out = []
    for s2, some in fork_on(eng, st, o.disc == BV(1, 64)):
        if some:
            out.append((call_fn_item(eng, f, [o.f[0]]), None, s2))
        else:
            out.append((default, None, s2))
    return out


@model(r"^Option::<.*>::map_or_else::<")
def m_map_or_else(eng, st, callee, a, ty):
    o, default_f, f = a
    out = []
    for s2, some in fork_on(eng, st, o.disc == BV(1, 64)):
        if some:
            out.append((call_fn_item(eng, f, [o.f[0]]), None, s2))
        else:
            out.append((call_fn_item(eng, default_f, []), None, s2))
    return out


@model(r"^Option::<.*>::unwrap_or::<|^Option::<.*>::unwrap_or$")
def m_unwrap_or(eng, st, callee, a, ty):
    o, default = a
    out = []
    for s2, some in fork_on(eng, st, o.disc == BV(1, 64)):
        out.append((o.f[0] if some else default, None, s2))
    return out


def call_fn_item(eng, f, args):
    """Value of applying a function item / closure to args (possibly a PushCall)."""
    if not isinstance(f, FnItem):
        raise Unknown("call of non-function value " + repr(f))
    n = f.name
    if re.match(r"NonZero::<\w+>::get$", n):
        return args[0]
    if n.startswith("{closure@"):
        target = [fn for fn in eng.fns.values()
                  if fn.local_types.get(1, "").replace(" ", "") == n.replace(" ", "")
                  or ("{closure#" in fn.name and (fn.header.find("_1: " + n) >= 0 or fn.header.find("_1: &" + n) >= 0
                                                  or fn.header.find("_1: &mut " + n) >= 0))]
        if len(target) != 1:
            raise Unknown(f"closure body for {n}: {len(target)} candidates")
        env_val = Agg("closure", None, dict(enumerate(f.captures)))
        by_ref = "_1: &" in target[0].header.split(",")[0]
        from .engine import Cell as _Cell, Ref as _Ref
        return PushCall(target[0], [_Ref(_Cell(env_val)) if by_ref else env_val] + list(args))
    if re.match(r"NodeId::(tree|item)$", n):
        mode = 2 if n.endswith("tree") else 3
        return Agg("NodeId", None, {0: Agg("NodeMode", BV(mode, 64), {}), 1: args[0]})
    raise Unknown("function item " + n)


class ParCall:
    """Outcome value: run `push` (a PushCall) and hand its return value to cont(eng, st, rv) -> outcomes."""

    def __init__(self, push, cont):
        self.push, self.cont = push, cont


def hof_start(eng, st, step, data):
    """Drive a higher-order std function from a model: `step(eng, st, job, last)` is called first with
    last=None and then with the return value of every closure call it asked for; it returns either
    ("call", fnval, args) or ("done", outcomes).  All progress lives in job (inside st.env) so that
    path forks inside the closure keep independent copies."""
    job = dict(data)
    job["step"] = step
    st.env.setdefault("hof", []).append(job)
    return _hof_next(eng, st, None)


def _hof_next(eng, st, last):
    job = st.env["hof"][-1]
    r = job["step"](eng, st, job, last)
    if r[0] == "done":
        st.env["hof"].pop()
        return r[1]
    return one(ParCall(call_fn_item(eng, r[1], r[2]), _hof_cont))


def _hof_cont(eng, st, rv):
    return _hof_next(eng, st, rv)


@model(r"^Option::<.*>::as_ref$|^Option::<.*>::as_mut$")
def m_option_as_ref(eng, st, callee, a, ty):
    """Option<T> -> Option<&T>: a reference into the payload slot (shared cell, so writes through
    as_mut are seen by the owner)."""
    from .engine import Ref as _Ref
    r = a[0]
    o = eng.deref(r)
    outs = []
    for s2, some in fork_on(eng, st, o.disc == BV(1, 64)):
        if some:
            r2 = r
            if s2 is not st:
                from . import world as _W
                r2 = _W._ref_in(eng, st, s2, r)
            outs.append((mk_option(_Ref(r2.cell, tuple(r2.path) + (("field", 0),))), None, s2))
        else:
            outs.append((mk_option(), None, s2))
    return outs


@model(r"^Option::<.*>::take$")
def m_option_take(eng, st, callee, a, ty):
    old = eng.deref(a[0])
    eng.store(a[0], mk_option())
    return one(old)


@model(r"^Option::<.*>::replace$|^Option::<.*>::insert$")
def m_option_replace(eng, st, callee, a, ty):
    old = eng.deref(a[0])
    eng.store(a[0], mk_option(a[1]))
    return one(old)


def _option_map_step(eng, st, job, last):
    if last is None:
        return ("call", job["f"], [job["x"]])
    return ("done", one(mk_option(last)))


@model(r"^Option::<.*>::map::<")
def m_option_map(eng, st, callee, a, ty):
    o, f = a
    out = []
    for s2, some in fork_on(eng, st, o.disc == BV(1, 64)):
        if some:
            sub = hof_start(eng, s2, _option_map_step, {"f": f, "x": o.f[0]})
            out.extend((v, c, s3 if s3 is not None else s2) for v, c, s3 in sub)
        else:
            out.append((mk_option(), None, s2))
    return out


_INT_W = {"u8": 8, "u16": 16, "u32": 32, "u64": 64, "usize": 64, "u128": 128,
          "i8": 8, "i16": 16, "i32": 32, "i64": 64, "isize": 64, "i128": 128}


_INT_RX = r"(?:u8|u16|u32|u64|usize|u128|i8|i16|i32|i64|isize|i128)"


@model(r"^<" + _INT_RX + r" as TryFrom<" + _INT_RX + r">>::try_from$|^<" + _INT_RX + r" as TryInto<" + _INT_RX + r">>::try_into$")
def m_int_try_from(eng, st, callee, a, ty):
    """checked integer conversion: Ok(value) iff it fits the target type"""
    m = re.match(r"^<(\w+) as TryFrom<(\w+)>>::try_from$", callee)
    if m:
        dst, src = m.group(1), m.group(2)
    else:
        m = re.match(r"^<(\w+) as TryInto<(\w+)>>::try_into$", callee)
        src, dst = m.group(1), m.group(2)
    if src not in _INT_W or dst not in _INT_W:
        raise Unknown("integer conversion " + callee)
    x = a[0]
    ws, wd = _INT_W[src], _INT_W[dst]
    s_signed, d_signed = src.startswith("i"), dst.startswith("i")
    wide = max(ws, wd) + 1
    xv = z3.SignExt(wide - ws, x) if s_signed else z3.ZeroExt(wide - ws, x)
    lo = -(1 << (wd - 1)) if d_signed else 0
    hi = (1 << (wd - 1)) - 1 if d_signed else (1 << wd) - 1
    fits = z3.And(xv >= z3.BitVecVal(lo, wide), xv <= z3.BitVecVal(hi, wide))
    res = z3.Extract(wd - 1, 0, xv) if wd < wide else xv
    out = []
    for s2, ok in fork_on(eng, st, fits):
        out.append((mk_ok(z3.simplify(res)) if ok else mk_err(Opaque("TryFromIntError")), None, s2))
    return out


@model(r"^NonZero::<\w+>::get$")
def m_nonzero_get(eng, st, callee, a, ty):
    return one(a[0])


# ---------------------------------------------------------------------------------- std: integers
SATMUL = {}


def satmul_uf(w):
    """saturating_mul as an uninterpreted function (std's implementation is trusted); users add the
    defining axiom for the argument pairs they care about (`satmul_axiom`)."""
    if w not in SATMUL:
        SATMUL[w] = z3.Function(f"saturating_mul_{w}", z3.BitVecSort(w), z3.BitVecSort(w), z3.BitVecSort(w))
    return SATMUL[w]


def satmul_axiom(x, y):
    w = x.size()
    return satmul_uf(w)(x, y) == z3.If(z3.BVMulNoOverflow(x, y, False), x * y, BV((1 << w) - 1, w))


@model(r"^core::num::<impl (\w+)>::saturating_mul$")
def m_sat_mul(eng, st, callee, a, ty):
    x, y = a
    return one(satmul_uf(x.size())(x, y))


@model(r"^core::num::<impl (\w+)>::saturating_sub$")
def m_sat_sub(eng, st, callee, a, ty):
    x, y = a
    return one(z3.If(z3.ULT(x, y), BV(0, x.size()), x - y))


@model(r"^core::num::<impl (\w+)>::saturating_add$")
def m_sat_add(eng, st, callee, a, ty):
    x, y = a
    w = x.size()
    s = x + y
    return one(z3.If(z3.ULT(s, x), BV((1 << w) - 1, w), s))


@model(r"^core::num::<impl (\w+)>::wrapping_add$")
def m_wrap_add(eng, st, callee, a, ty):
    return one(a[0] + a[1])


@model(r"^core::num::<impl u64>::ilog2$")
def m_ilog2(eng, st, callee, a, ty):
    x = a[0]
    out = []
    for s2, zero in fork_on(eng, st, x == BV(0, 64)):
        if zero:
            out.append((PANIC, None, s2))
        else:
            r = BV(0, 32)
            for q in range(64):
                r = z3.If(z3.Extract(q, q, x) == 1, BV(q, 32), r)
            out.append((r, None, s2))
    return out


@model(r"^<(u8|u16|u32|u64|usize) as (?:Into|From)<.*>>::(into|from)$|^<(u32|u64|usize) as TryInto<(\w+)>>::try_into$")
def m_int_conv(eng, st, callee, a, ty):
    raise Unknown("integer conversion " + callee)


@model(r"^std::cmp::(min|max)::<|^<(u32|u64|usize) as Ord>::(min|max)$|^std::cmp::Ord::(min|max)$")
def m_minmax(eng, st, callee, a, ty):
    x, y = a
    is_min = "min" in callee.split("::")[-1] or "::min::<" in callee
    if is_min:
        return one(z3.If(z3.ULE(x, y), x, y))
    return one(z3.If(z3.UGE(x, y), x, y))


# ---------------------------------------------------------------------------------- std: Cow / Deref / Clone / Box
@model(r"^<Cow<'_, .*> as Deref>::deref$")
def m_cow_deref(eng, st, callee, a, ty):
    cow = eng.deref(a[0])
    if isinstance(cow, Opaque):
        return one(a[0])            # abstract vector / bitmap handle standing for the Cow itself
    inner = cow.f[0]
    if isinstance(inner, Ref):
        return one(inner)
    # Owned: a reference to the owned payload inside the Cow
    return one(Ref(a[0].cell, a[0].path + (("field", 0),)) if isinstance(a[0], Ref) else Ref(Cell(inner)))


@model(r"^Cow::<'_, .*>::into_owned$")
def m_cow_into_owned(eng, st, callee, a, ty):
    inner = a[0].f[0]
    return one(eng.deref(inner) if isinstance(inner, Ref) else inner)


@model(r"^<Cow<'_, .*> as Clone>::clone$")
def m_cow_clone(eng, st, callee, a, ty):
    cow = eng.deref(a[0])
    return one(Agg("Cow", cow.disc, dict(cow.f)))


@model(r"^<RoaringBitmap as Clone>::clone$")
def m_bm_clone(eng, st, callee, a, ty):
    return one(bitmap_of(eng, a[0]))


@model(r"^std::mem::drop::<|^core::mem::drop::<|^std::mem::forget::<")
def m_drop(eng, st, callee, a, ty):
    return one(unit())


# ---------------------------------------------------------------------------------- roaring (bit-set model)
@model(r"^bitmap::inherent::<impl RoaringBitmap>::new$|^<RoaringBitmap as Default>::default$")
def m_bm_new(eng, st, callee, a, ty):
    return one(BV(0, U))


@model(r"^bitmap::inherent::<impl RoaringBitmap>::len$")
def m_bm_len(eng, st, callee, a, ty):
    return one(popcount(bitmap_of(eng, a[0]), 64))


@model(r"^bitmap::inherent::<impl RoaringBitmap>::is_empty$")
def m_bm_is_empty(eng, st, callee, a, ty):
    return one(bitmap_of(eng, a[0]) == BV(0, U))


@model(r"^bitmap::inherent::<impl RoaringBitmap>::contains$")
def m_bm_contains(eng, st, callee, a, ty):
    return one((bitmap_of(eng, a[0]) & bit(a[1])) != BV(0, U))


@model(r"^bitmap::inherent::<impl RoaringBitmap>::(insert|push)$")
def m_bm_insert(eng, st, callee, a, ty):
    b = bitmap_of(eng, a[0])
    st.pc.append(z3.ULT(a[1], BV(U, 32)))     # ids stay inside the bounded universe
    if not eng.feasible(st.pc, z3.BoolVal(True)):
        return []
    newly = (b & bit(a[1])) == BV(0, U)
    eng.store(a[0], b | bit(a[1]))
    return one(newly)


@model(r"^bitmap::inherent::<impl RoaringBitmap>::remove$")
def m_bm_remove(eng, st, callee, a, ty):
    b = bitmap_of(eng, a[0])
    had = (b & bit(a[1])) != BV(0, U)
    eng.store(a[0], b & ~bit(a[1]))
    return one(had)


@model(r"^bitmap::inherent::<impl RoaringBitmap>::clear$")
def m_bm_clear(eng, st, callee, a, ty):
    eng.store(a[0], BV(0, U))
    return one(unit())


@model(r"^bitmap::inherent::<impl RoaringBitmap>::(min|max)$")
def m_bm_minmax(eng, st, callee, a, ty):
    b = bitmap_of(eng, a[0])
    out = []
    for s2, empty in fork_on(eng, st, b == BV(0, U)):
        if empty:
            out.append((mk_option(), None, s2))
        else:
            out.append((mk_option(lowest(b)[0] if callee.endswith("min") else highest(b)), None, s2))
    return out


@model(r"^bitmap::inherent::<impl RoaringBitmap>::select$")
def m_bm_select(eng, st, callee, a, ty):
    b = bitmap_of(eng, a[0])
    some, val = nth_set_bit(b, a[1])
    return one(Agg("Option", z3.If(some, BV(1, 64), BV(0, 64)), {0: val}))


@model(r"^bitmap::inherent::<impl RoaringBitmap>::remove_smallest$")
def m_bm_remove_smallest(eng, st, callee, a, ty):
    b = bitmap_of(eng, a[0])
    n = z3.simplify(a[1])
    if not z3.is_bv_value(n):
        raise Unknown("remove_smallest with symbolic count")
    for _ in range(n.as_long()):
        b = b & (b - 1)
    eng.store(a[0], b)
    return one(unit())


@model(r"^<RoaringBitmap as (BitOrAssign|SubAssign|BitAndAssign)(<&?RoaringBitmap>)?>::\w+$")
def m_bm_opassign(eng, st, callee, a, ty):
    x, y = bitmap_of(eng, a[0]), bitmap_of(eng, a[1])
    if "BitOrAssign" in callee:
        r = x | y
    elif "SubAssign" in callee:
        r = x & ~y
    else:
        r = x & y
    # valid lemma (helps z3 on the frequent `len() != new.len()` tests): for comparable sets,
    # equal cardinality <=> equal sets
    st.pc.append((popcount(r, 8) == popcount(x, 8)) == (r == x))
    eng.store(a[0], r)
    return one(unit())


@model(r"^<&?RoaringBitmap as (BitOr|Sub|BitAnd)(<&?RoaringBitmap>)?>::\w+$")
def m_bm_op(eng, st, callee, a, ty):
    x, y = bitmap_of(eng, a[0]), bitmap_of(eng, a[1])
    if " as BitOr" in callee:
        return one(x | y)
    if " as Sub" in callee:
        return one(x & ~y)
    return one(x & y)


@model(r"^<RoaringBitmap as FromIterator<u32>>::from_iter::<\[u32; \d+\]>$")
def m_bm_from_array(eng, st, callee, a, ty):
    b = BV(0, U)
    for x in a[0]:
        st.pc.append(z3.ULT(x, BV(U, 32)))
        b = b | bit(x)
    return one(b)


@model(r"^bitmap::iter::<impl RoaringBitmap>::from_sorted_iter::<Option<u32>>$")
def m_bm_from_sorted_option(eng, st, callee, a, ty):
    o = a[0]
    b = z3.If(o.disc == BV(1, 64), bit(o.f[0]) if 0 in o.f else BV(0, U), BV(0, U))
    return one(mk_ok(b))


@model(r"^bitmap::iter::<impl RoaringBitmap>::from_sorted_iter::<Vec<u32>>$")
def m_bm_from_sorted_vec(eng, st, callee, a, ty):
    v = a[0]
    if not (isinstance(v, Agg) and v.kind == "Vec"):
        raise Unknown("from_sorted_iter on " + repr(v))
    b = BV(0, U)
    for x in v.f["items"]:
        b = b | bit(x)
    # pushes come from an ascending bitmap iteration in every caller: sortedness is by construction
    return one(mk_ok(b))


class BitIter:
    """Iterator over a bit-set, ascending.  `bits` is the remaining set (z3 term)."""

    def __init__(self, bits):
        self.bits = bits

    def clone(self, memo):
        return BitIter(self.bits)


@model(r"^<&RoaringBitmap as IntoIterator>::into_iter$|^bitmap::iter::<impl RoaringBitmap>::iter$|^<RoaringBitmap as IntoIterator>::into_iter$")
def m_bm_iter(eng, st, callee, a, ty):
    return one(Opaque("BitIter", BitIter(bitmap_of(eng, a[0]))))


@model(r"^<roaring::bitmap::(Iter<'_>|IntoIter) as Iterator>::next$")
def m_bm_iter_next(eng, st, callee, a, ty):
    it = eng.deref(a[0])
    bits = it.data.bits
    out = []
    for s2, empty in fork_on(eng, st, bits == BV(0, U)):
        if empty:
            out.append((mk_option(), None, s2))
        else:
            it2 = eng.deref(_same_ref(eng, s2, st, a[0]))
            idx, rest = lowest(it2.data.bits)
            it2.data.bits = z3.simplify(rest)
            out.append((mk_option(idx), None, s2))
    return out


def _same_ref(eng, s2, st, ref):
    """`ref` as seen from the (possibly cloned) state s2: references into frames are resolved by
    position because clones preserve the stack layout."""
    if s2 is st or not isinstance(ref, Ref):
        return ref
    if isinstance(ref.cell, type(st.stack[0])):
        for i, f in enumerate(st.stack):
            if f is ref.cell:
                return Ref(s2.stack[i], ref.path)
    raise Unknown("reference into a heap cell across a fork")


# ---------------------------------------------------------------------------------- node ids / keys (pure helpers inlined from MIR where possible)
def node_id(mode, item):
    return Agg("NodeId", None, {0: Agg("NodeMode", BV(mode, 64), {}), 1: item})


@model(r"^<NodeMode as PartialEq>::(eq|ne)$")
def m_nodemode_eq(eng, st, callee, a, ty):
    x, y = eng.deref(a[0]), eng.deref(a[1])
    r = x.disc == y.disc
    return one(r if callee.endswith("eq") else z3.Not(r))


@model(r"^<NodeId as PartialEq>::(eq|ne)$")
def m_nodeid_eq(eng, st, callee, a, ty):
    x, y = eng.deref(a[0]), eng.deref(a[1])
    r = z3.And(x.f[0].disc == y.f[0].disc, x.f[1] == y.f[1])
    return one(r if callee.endswith("eq") else z3.Not(r))
