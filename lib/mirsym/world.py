"""Environment models specific to arroy's build pipeline: the tree store, TmpNodes, frozen readers,
side decisions, cancellation, atomics, Vec<u32>, ranges.  All state lives in `state.env`."""
import re

import z3

from .engine import PANIC, Agg, BreakPoint, Cell, FnItem, Frame, Opaque, Ref, Unknown, BV
from .models import (U, PushCall, bit, bitmap_of, concretize, fork_on, mk_err, mk_ok, mk_option, model, one,
                     popcount, unit, call_fn_item)

# ---- node constructors (layout = variant/field order of the current sources, see Engine.enums)
LEAF, BUCKET, SPLIT = 0, 1, 2
MODE_TREE, MODE_ITEM = 2, 3


def node_id(mode, item):
    return Agg("NodeId", None, {0: Agg("NodeMode", BV(mode, 64), {}), 1: item})


def tree_id(i):
    return node_id(MODE_TREE, BV(i, 32) if isinstance(i, int) else i)


def item_id(x):
    return node_id(MODE_ITEM, x)


def bucket(bits):
    return Agg("Node", BV(BUCKET, 64), {0: Agg("Descendants", None, {0: Agg("Cow", BV(1, 64), {0: bits})})})


def split(left, right, zero, tid=None):
    normal = Agg("Cow", BV(1, 64), {0: Opaque("normal", {"zero": zero, "tid": tid})})
    return Agg("Node", BV(SPLIT, 64), {0: Agg("SplitPlaneNormal", None, {0: left, 1: right, 2: normal})})


def node_kind(n):
    d = z3.simplify(n.disc)
    return d.as_long()


def bucket_bits(eng, n):
    cow = n.f[0].f[0]
    v = cow.f[0]
    while isinstance(v, Ref):
        v = eng.deref(v)
    return v


def snap(eng, v, memo=None):
    """Value with every reference resolved (what serialisation at this instant would capture)."""
    if isinstance(v, Ref):
        return snap(eng, eng.deref(v))
    if isinstance(v, Agg):
        return Agg(v.kind, v.disc, {k: snap(eng, x) for k, x in v.f.items()})
    if isinstance(v, list):
        return [snap(eng, x) for x in v]
    return v


def mode_of(nid):
    return z3.simplify(nid.f[0].disc)


# ------------------------------------------------------------------------------------ store access
def _key_parts(eng, keyref):
    key = eng.deref(keyref)
    nid = key.f[1]
    return key.f[0], nid.f[0].disc, nid.f[1]


@model(r"^heed::Database::<KeyCodec, NodeCodec<D>>::get::<")
def m_db_get(eng, st, callee, a, ty):
    index, mode, item = _key_parts(eng, a[2])
    outs = []
    for s_m, m in concretize(eng, st, mode, [MODE_TREE, MODE_ITEM]):
        env = s_m.env
        if m == MODE_TREE:
            fault = env.get("get_fault")
            for s_i, tid in concretize(eng, s_m, _retarget(item, st, s_m), sorted(s_m.env["store"].keys())):
                node = s_i.env["store"].get(tid) if tid is not None else None
                s_i.env.setdefault("gets", []).append(("tree", tid))
                outs.append((mk_ok(mk_option(node) if node is not None else mk_option()), None, s_i))
        elif m == MODE_ITEM:
            stored = s_m.env["stored_items"]
            for s_i, present in fork_on(eng, s_m, (stored & bit(item)) != BV(0, U)):
                s_i.env.setdefault("gets", []).append(("item", item))
                leaf = Agg("Node", BV(LEAF, 64), {0: Agg("Leaf", None, {0: Opaque("header"), 1: Opaque("vector", {"id": item})})})
                outs.append((mk_ok(mk_option(leaf) if present else mk_option()), None, s_i))
        else:
            raise Unknown("Database::get with a key of unexpected kind")
    return outs


def _retarget(term, old, new):
    return term


@model(r"^heed::Database::<KeyCodec, NodeCodec<D>>::delete::<")
def m_db_delete(eng, st, callee, a, ty):
    index, mode, item = _key_parts(eng, a[2])
    outs = []
    for s_m, m in concretize(eng, st, mode, [MODE_TREE, MODE_ITEM]):
        if m != MODE_TREE:
            s_m.env.setdefault("bad_deletes", []).append((m, item))
            outs.append((mk_ok(z3.BoolVal(True)), None, s_m))
            continue
        for s_i, tid in concretize(eng, s_m, item, sorted(s_m.env["store"].keys())):
            existed = tid is not None and tid in s_i.env["store"]
            if existed:
                del s_i.env["store"][tid]
                s_i.env.setdefault("db_deleted", []).append(tid)
            outs.append((mk_ok(z3.BoolVal(existed)), None, s_i))
    return outs


@model(r"^<RwTxn<'_> as Deref>::deref$|^<RoTxn<'_, WithoutTls> as Deref>::deref$|^<RoTxn<'_> as Deref>::deref$")
def m_txn_deref(eng, st, callee, a, ty):
    return one(a[0])


@model(r"^error::Error::missing_key$")
def m_missing_key(eng, st, callee, a, ty):
    return one(Agg("Error", BV(9, 64), {0: Opaque("MissingKey", {"key": a[0]})}))


@model(r"^Option::<.*>::ok_or::<error::Error>$")
def m_ok_or(eng, st, callee, a, ty):
    o, err = a
    out = []
    for s2, some in fork_on(eng, st, o.disc == BV(1, 64)):
        out.append((mk_ok(o.f[0]) if some else mk_err(err), None, s2))
    return out


@model(r"^(?:std::result::)?Result::<.*>::map::<\(\), \{closure@")
def m_result_map_unit(eng, st, callee, a, ty):
    r = a[0]
    return one(Agg("Result", r.disc, {0: unit() if True else None} if z3.is_true(z3.simplify(r.disc == BV(0, 64))) else dict(r.f)))


@model(r"^(?:std::result::)?Result::<.*>::map_err::<error::Error, fn\(heed::Error\) -> error::Error")
def m_result_map_err(eng, st, callee, a, ty):
    return one(a[0])


# ------------------------------------------------------------------------------------ TmpNodes
@model(r"^TmpNodes::<NodeCodec<D>>::put$")
def m_tmp_put(eng, st, callee, a, ty):
    tmp = st.env["tmp"]
    item = a[1]
    outs = []
    for s2, is_max in fork_on(eng, st, item == BV(0xFFFFFFFF, 32)):
        if is_max:
            outs.append((PANIC, None, s2))
            continue
        t = s2.env["tmp"]
        n = s2.env.get("put_fault_at")
        t["puts"].append((item, snap(eng, a[2] if s2 is st else _ref_in(eng, st, s2, a[2]))))
        if n is not None:
            # fault injection: the n-th put fails with an io error
            k = len(t["puts"])
            for s3, fails in fork_on(eng, s2, n == BV(k, 32)):
                if fails:
                    s3.env["tmp"]["puts"].pop()
                    s3.env["injected"] = True
                    outs.append((mk_err(Agg("heed::Error", BV(0, 64), {0: Opaque("io")})), None, s3))
                else:
                    outs.append((mk_ok(unit()), None, s3))
        else:
            outs.append((mk_ok(unit()), None, s2))
    return outs


def _ref_in(eng, old, new, ref):
    if not isinstance(ref, Ref) or old is new:
        return ref
    if isinstance(ref.cell, Frame):
        for i, f in enumerate(old.stack):
            if f is ref.cell:
                return Ref(new.stack[i], ref.path)
    raise Unknown("reference into a heap cell across a fork")


@model(r"^TmpNodes::<NodeCodec<D>>::remove$")
def m_tmp_remove(eng, st, callee, a, ty):
    st.env["tmp"]["deleted"].append(a[1])
    return one(unit())


@model(r"^TmpNodes::<NodeCodec<D>>::remap$")
def m_tmp_remap(eng, st, callee, a, ty):
    st.env["tmp"]["remap"].append((a[1], a[2]))
    return one(unit())


# ------------------------------------------------------------------------------------ frozen readers
@model(r"^ImmutableTrees::<'_, D>::get$")
def m_trees_get(eng, st, callee, a, ty):
    outs = []
    for s_i, tid in concretize(eng, st, a[1], sorted(st.env["frozen"].keys())):
        node = s_i.env["frozen"].get(tid) if tid is not None else None
        outs.append((mk_ok(mk_option(node) if node is not None else mk_option()), None, s_i))
    return outs


@model(r"^ImmutableLeafs::<'_, D>::get$")
def m_leafs_get(eng, st, callee, a, ty):
    avail = st.env["leafs"]
    out = []
    for s2, present in fork_on(eng, st, (avail & bit(a[1])) != BV(0, U)):
        if present:
            leaf = Agg("Leaf", None, {0: Opaque("header"), 1: Opaque("vector", {"id": a[1]})})
            out.append((mk_ok(mk_option(leaf)), None, s2))
        else:
            out.append((mk_ok(mk_option()), None, s2))
    return out


@model(r"^ImmutableSubsetLeafs::<'_, D>::from_item_ids$")
def m_subset_new(eng, st, callee, a, ty):
    return one(Agg("ImmutableSubsetLeafs", None, {0: a[1], 1: a[0]}))


@model(r"^ImmutableSubsetLeafs::<'_, D>::len$")
def m_subset_len(eng, st, callee, a, ty):
    sub = eng.deref(a[0])
    return one(popcount(bitmap_of(eng, sub.f[0]), 64))


@model(r"^Writer::<D>::contains_item$")
def m_contains_item(eng, st, callee, a, ty):
    """is the item key in the database?  (deleted ids are gone, overwritten ids are still there)"""
    db = st.env.get("db_items", st.env.get("stored_items"))
    if db is None:
        raise Unknown("contains_item without a database item set")
    return one(mk_ok((db & bit(a[2])) != BV(0, U)))


# ------------------------------------------------------------------------------------ geometry (fresh decisions)
@model(r"^<D as Distance>::side::<R>$")
def m_side(eng, st, callee, a, ty):
    leaf = eng.deref(a[1])
    vec = leaf.f[1]
    b = eng.fresh("side", z3.BoolSort())
    vid = vec.data.get("id") if isinstance(vec, Opaque) else None
    if st.env.get("fixed_sides") == "parity" and vid is not None:
        # stated restriction of some histories: odd ids answer Right, even ids Left at every split
        c = z3.simplify(vid) if z3.is_expr(vid) else vid
        k = c.as_long() if z3.is_expr(c) and z3.is_bv_value(c) else (c if isinstance(c, int) else None)
        if k is not None:
            b = z3.BoolVal(k % 2 == 1)
    st.env.setdefault("sides", []).append((vid, b))
    n = eng.deref(a[0])
    while isinstance(n, Ref):
        n = eng.deref(n)
    if isinstance(n, Agg) and n.kind == "Cow":
        n = n.f[0]
    site = None
    if isinstance(n, Opaque) and isinstance(n.data, dict):
        site = n.data.get("tid")
        if site is None:
            site = n.data.get("nid")
    st.env.setdefault("side_sites", []).append(site)
    return one(Agg("Side", z3.If(b, BV(1, 64), BV(0, 64)), {}))


@model(r"^<D as Distance>::margin_no_header$|^<D as Distance>::margin$")
def m_margin(eng, st, callee, a, ty):
    """a margin is an arbitrary f32 (NaN, zero and infinities included) per (vector, normal) pair"""
    m = eng.fresh("margin", z3.Float32())
    st.env.setdefault("margins", []).append(m)
    vid = None
    for x in a[:2]:
        v = eng.deref(x) if isinstance(x, Ref) else x
        while isinstance(v, Ref):
            v = eng.deref(v)
        if isinstance(v, Agg) and v.kind == "Cow":
            v = v.f[0]
        if isinstance(v, Opaque) and isinstance(v.data, dict) and v.data.get("id") is not None:
            vid = v.data["id"]
    st.env.setdefault("margin_items", []).append(vid)
    return one(m)


@model(r"^Side::random::<R>$")
def m_side_random(eng, st, callee, a, ty):
    b = eng.fresh("rnd", z3.BoolSort())
    st.env.setdefault("randoms", []).append(b)
    return one(Agg("Side", z3.If(b, BV(1, 64), BV(0, 64)), {}))


@model(r"^UnalignedVector::<.*>::is_zero$")
def m_is_zero(eng, st, callee, a, ty):
    v = eng.deref(a[0])
    while isinstance(v, Ref):
        v = eng.deref(v)
    if isinstance(v, Agg) and v.kind == "Cow":
        v = v.f[0]
    return one(v.data["zero"])


@model(r"^UnalignedVector::<.*>::reset$")
def m_reset(eng, st, callee, a, ty):
    cow = eng.deref(a[0])
    eng.store(a[0], Agg("Cow", BV(1, 64), {0: Opaque("normal", {"zero": z3.BoolVal(True)})}))
    return one(unit())


@model(r"^<Cow<'_, UnalignedVector<.*>> as Deref>::deref$")
def m_cow_vec_deref(eng, st, callee, a, ty):
    cow = eng.deref(a[0])
    return one(Ref(Cell(cow.f[0])))


@model(r"^<D as Distance>::create_split::<R>$")
def m_create_split(eng, st, callee, a, ty):
    z = eng.fresh("zero_normal", z3.BoolSort())
    st.env.setdefault("splits_created", []).append(z)
    nid = f"new{len(st.env['splits_created'])}"      # identity of this freshly created normal
    return one(mk_ok(Agg("Cow", BV(1, 64), {0: Opaque("normal", {"zero": z, "nid": nid})})))


# ------------------------------------------------------------------------------------ callbacks
@model(r"^<Box<dyn Fn\(\) -> bool \+ Send \+ Sync> as Fn<\(\)>>::call$")
def m_cancel_call(eng, st, callee, a, ty):
    n = st.env.get("cancel_from")
    st.env["polls"] = st.env.get("polls", 0) + 1
    if n is None:
        return one(z3.BoolVal(False))
    return one(z3.UGE(BV(st.env["polls"], 32), n))


@model(r"^<Box<dyn Fn\(WriterProgress\) \+ Send \+ Sync> as Fn<\(WriterProgress,\)>>::call$")
def m_progress_call(eng, st, callee, a, ty):
    return one(unit())


# ------------------------------------------------------------------------------------ atomics (sequentially consistent)
@model(r"^Atomic::<\w+>::new$")
def m_atomic_new(eng, st, callee, a, ty):
    return one(Agg("Atomic", None, {0: a[0]}))


@model(r"^Atomic::<\w+>::fetch_add$")
def m_atomic_fetch_add(eng, st, callee, a, ty):
    at = eng.deref(a[0])
    old = at.f[0]
    at.f[0] = old + a[1]
    return one(old)


@model(r"^Atomic::<\w+>::load$")
def m_atomic_load(eng, st, callee, a, ty):
    return one(eng.deref(a[0]).f[0])


@model(r"^Atomic::<\w+>::store$")
def m_atomic_store(eng, st, callee, a, ty):
    eng.deref(a[0]).f[0] = a[1]
    return one(unit())


# ------------------------------------------------------------------------------------ Vec<u32>, ranges
def mk_vec(items=None):
    return Agg("Vec", None, {"items": list(items or [])})


@model(r"^Vec::<u32>::(with_capacity|new)$")
def m_vec_new(eng, st, callee, a, ty):
    return one(mk_vec())


@model(r"^Vec::<u32>::push$")
def m_vec_push(eng, st, callee, a, ty):
    eng.deref(a[0]).f["items"].append(a[1])
    return one(unit())


@model(r"^Vec::<u32>::clear$")
def m_vec_clear(eng, st, callee, a, ty):
    eng.deref(a[0]).f["items"] = []
    return one(unit())


@model(r"^Vec::<u32>::len$")
def m_vec_len(eng, st, callee, a, ty):
    return one(BV(len(eng.deref(a[0]).f["items"]), 64))


@model(r"^Vec::<u32>::is_empty$")
def m_vec_is_empty(eng, st, callee, a, ty):
    return one(z3.BoolVal(len(eng.deref(a[0]).f["items"]) == 0))


@model(r"^Vec::<u32>::swap_remove$")
def m_vec_swap_remove(eng, st, callee, a, ty):
    v = eng.deref(a[0]).f["items"]
    idx = z3.simplify(a[1])
    if not z3.is_bv_value(idx):
        raise Unknown("swap_remove with symbolic index")
    i = idx.as_long()
    if i >= len(v):
        return [(PANIC, None, None)]
    x = v[i]
    v[i] = v[-1]
    v.pop()
    return one(x)


@model(r"^<std::ops::Range<(usize|u32|u64)> as IntoIterator>::into_iter$")
def m_range_into_iter(eng, st, callee, a, ty):
    return one(a[0])


@model(r"^<std::ops::Range<(usize|u32|u64)> as Iterator>::next$")
def m_range_next(eng, st, callee, a, ty):
    r = eng.deref(a[0])
    start, end = r.f[0], r.f[1]
    out = []
    for s2, more in fork_on(eng, st, z3.ULT(start, end)):
        if more:
            r2 = eng.deref(a[0] if s2 is st else _ref_in(eng, st, s2, a[0]))
            r2.f[0] = z3.simplify(start + 1)
            out.append((mk_option(start), None, s2))
        else:
            out.append((mk_option(), None, s2))
    return out


@model(r"^bitmap::iter::<impl RoaringBitmap>::from_sorted_iter::<std::ops::Range<u32>>$")
def m_bm_from_range(eng, st, callee, a, ty):
    r = a[0]
    start, end = r.f[0], r.f[1]
    b = BV(0, U)
    for p in range(U):
        inside = z3.And(z3.ULE(start, BV(p, 32)), z3.ULT(BV(p, 32), end))
        b = b | z3.If(inside, BV(1 << p, U), BV(0, U))
    return one(mk_ok(b))


@model(r"^<roaring::bitmap::Iter<'_> as IntoIterator>::into_iter$")
def m_iter_into_iter(eng, st, callee, a, ty):
    return one(a[0])


@model(r"^core::f64::<impl f64>::max$")
def m_f64_max(eng, st, callee, a, ty):
    return one(z3.fpMax(a[0], a[1]))
