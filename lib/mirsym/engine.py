"""A forking (KLEE-style) symbolic executor over rustc MIR, with z3 deciding path feasibility.

Values
  * scalars are z3 bit-vectors of their Rust width / z3 Bools / z3 floating-point terms;
  * aggregates (structs, enum variants, tuples, Option/Result/Cow/...) are `Agg` records with a
    discriminant term and indexed fields;
  * references are `Ref(cell, path)` into a frame's locals or a heap `Cell`;
  * environment objects (bitmaps, stores, temp files, iterators) are whatever the model table puts
    there (z3 terms or small Python records that know how to copy themselves).
Control flow forks on `switchInt` when more than one arm is feasible under the path condition; the
whole state (call stack + environment) is copied at a fork.  Calls are resolved, in this order, by
the model table (environment contracts), by inlining the callee's own MIR, or else the path ends as
`unknown` (=> inconclusive, never success)."""
import re
import time

import z3

from .mir import _split_top  # noqa: F401  (re-exported helper)

BV = z3.BitVecVal


class Agg:
    __slots__ = ("kind", "disc", "f")

    def __init__(self, kind, disc=None, f=None):
        self.kind = kind
        self.disc = disc
        self.f = f if f is not None else {}

    def __repr__(self):
        return f"Agg({self.kind}, disc={self.disc}, f={self.f})"


class Cell:
    """A mutable heap cell (targets of references that are not frame locals)."""
    __slots__ = ("v",)

    def __init__(self, v=None):
        self.v = v


class Ref:
    __slots__ = ("cell", "path")

    def __init__(self, cell, path=()):
        self.cell = cell
        self.path = tuple(path)

    def __repr__(self):
        return f"Ref({type(self.cell).__name__}, {self.path})"


class Opaque:
    """An environment handle without structure (Database, Txn, Rng, ...)."""
    __slots__ = ("tag", "data")

    def __init__(self, tag, data=None):
        self.tag = tag
        self.data = data

    def __repr__(self):
        return f"Opaque({self.tag})"


class FnItem:
    """A function item / closure value passed as an argument."""
    __slots__ = ("name", "captures")

    def __init__(self, name, captures=None):
        self.name = name
        self.captures = captures or []


class Frame:
    __slots__ = ("fn", "loc", "bb", "ret_dst", "ret_bb", "wrap", "cont")

    def __init__(self, fn):
        self.fn = fn
        self.loc = {}
        self.bb = 0
        self.ret_dst = None
        self.ret_bb = None
        self.wrap = None
        self.cont = None        # optional continuation cont(engine, state, return value) -> outcomes


class State:
    def __init__(self):
        self.stack = []
        self.pc = []          # list of z3 Bool terms
        self.env = {}         # model-owned world (must be copyable by `clone`)
        self.trace = []       # (fn short name, bb) of forks, for reporting
        self.steps = 0

    def clone(self):
        memo = {}
        s = State()
        s.stack = [_cp(f, memo) for f in self.stack]
        s.pc = list(self.pc)
        s.env = _cp(self.env, memo)
        s.trace = list(self.trace)
        s.steps = self.steps
        return s


def _cp(v, memo):
    if v is None or isinstance(v, (int, str, bool, float, z3.ExprRef, FnItem)):
        return v
    i = id(v)
    if i in memo:
        return memo[i]
    if isinstance(v, Agg):
        n = Agg(v.kind, v.disc)
        memo[i] = n
        n.f = {k: _cp(x, memo) for k, x in v.f.items()}
        return n
    if isinstance(v, Ref):
        n = Ref(None, v.path)
        memo[i] = n
        n.cell = _cp(v.cell, memo)
        return n
    if isinstance(v, Cell):
        n = Cell()
        memo[i] = n
        n.v = _cp(v.v, memo)
        return n
    if isinstance(v, Frame):
        n = Frame(v.fn)
        memo[i] = n
        n.bb, n.ret_dst, n.ret_bb, n.wrap, n.cont = v.bb, v.ret_dst, v.ret_bb, v.wrap, v.cont
        n.loc = {k: _cp(x, memo) for k, x in v.loc.items()}
        return n
    if isinstance(v, Opaque):
        n = Opaque(v.tag)
        memo[i] = n
        n.data = _cp(v.data, memo)
        return n
    if isinstance(v, dict):
        n = {}
        memo[i] = n
        for k, x in v.items():
            n[k] = _cp(x, memo)
        return n
    if isinstance(v, list):
        n = []
        memo[i] = n
        n.extend(_cp(x, memo) for x in v)
        return n
    if isinstance(v, tuple):
        return tuple(_cp(x, memo) for x in v)
    if isinstance(v, (set, frozenset)):
        return set(v)
    if callable(v):
        return v
    if hasattr(v, "clone"):
        n = v.clone(memo)
        memo[i] = n
        return n
    raise TypeError(f"cannot copy {type(v)}")


class Final:
    def __init__(self, status, value, state, info=""):
        self.status = status      # return | panic | unwind | unknown
        self.value = value
        self.state = state
        self.info = info

    @property
    def pc(self):
        return self.state.pc

    @property
    def env(self):
        return self.state.env


class Unknown(Exception):
    pass


class PathEnd(Exception):
    def __init__(self, status, info):
        self.status, self.info = status, info


INT_W = {"u8": 8, "u16": 16, "u32": 32, "u64": 64, "usize": 64, "u128": 128,
         "i8": 8, "i16": 16, "i32": 32, "i64": 64, "isize": 64, "i128": 128}
SIGNED = {"i8", "i16", "i32", "i64", "isize", "i128"}

STD_VARIANTS = {
    "Option": ["None", "Some"],
    "Result": ["Ok", "Err"],
    "ControlFlow": ["Continue", "Break"],
    "Cow": ["Borrowed", "Owned"],
    "Ordering": ["Less", "Equal", "Greater"],
}


class Engine:
    def __init__(self, fns, structs, enums, models, inline, max_depth=4, max_steps=20000,
                 solver_timeout_ms=20000):
        self.fns = fns
        self.structs = structs
        self.enums = dict(enums)
        for k, v in STD_VARIANTS.items():
            self.enums.setdefault(k, v)
        self.models = models            # list of (compiled regex, handler)
        self.inline = inline            # list of (compiled regex on callee, regex on fn name)
        self.max_depth = max_depth
        self.max_steps = max_steps
        self.solver = z3.Solver()
        self.solver.set("timeout", solver_timeout_ms)
        self._timeout_ms = solver_timeout_ms
        self._base, self._base_n = [], 0
        self._in_run = 0
        self.queries = 0
        self.solver_s = 0.0
        self.fresh_n = 0
        self.encoded = set()            # names of functions whose MIR was executed
        self.modelled = set()           # callees answered by the model table

    # ------------------------------------------------------------------ solver
    def check(self, pc, extra=None):
        self.queries += 1
        t0 = time.time()
        self.solver.push()
        try:
            nb = self._base_n
            if nb and len(pc) >= nb and all(pc[i] is self._base[i] for i in range(nb)):
                rest = pc[nb:]
            else:
                rest = pc
                if nb:
                    # a path condition that does not extend the asserted base: use a scratch solver
                    self.solver.pop()
                    return self._check_fresh(pc, extra, t0)
            for c in rest:
                self.solver.add(c)
            if extra is not None:
                self.solver.add(extra)
            r = self.solver.check()
            if r == z3.unknown:
                raise Unknown("solver returned unknown: " + self.solver.reason_unknown())
            m = self.solver.model() if r == z3.sat else None
        finally:
            self.solver.pop()
            self.solver_s += time.time() - t0
        return r == z3.sat, m

    def _check_fresh(self, pc, extra, t0):
        s2 = z3.Solver()
        s2.set("timeout", self._timeout_ms)
        for c in pc:
            s2.add(c)
        if extra is not None:
            s2.add(extra)
        r = s2.check()
        self.solver.push()      # re-balance the pop in `check`'s finally clause
        if r == z3.unknown:
            raise Unknown("solver returned unknown: " + s2.reason_unknown())
        return r == z3.sat, (s2.model() if r == z3.sat else None)

    def set_base(self, pc):
        """Assert a common path-condition prefix once (incremental solving)."""
        if self._base_n:
            self.solver.pop()
        self._base = list(pc)
        self._base_n = len(self._base)
        if self._base_n:
            self.solver.push()
            for c in self._base:
                self.solver.add(c)

    def feasible(self, pc, cond):
        c = z3.simplify(cond)
        if z3.is_true(c):
            return True
        if z3.is_false(c):
            return False
        return self.check(pc, c)[0]

    def fresh(self, name, sort):
        self.fresh_n += 1
        return z3.Const(f"{name}!{self.fresh_n}", sort)

    # ------------------------------------------------------------------ places
    _place_cache = {}

    def parse_place(self, s):
        s = s.strip()
        p = self._place_cache.get(s)
        if p is None:
            p = self._parse_place(s)
            self._place_cache[s] = p
        return p

    def _parse_place(self, s):
        m = re.match(r"_(\d+)$", s)
        if m:
            return (("local", int(m.group(1))),)
        if s.startswith("(") and s.endswith(")"):
            inner = s[1:-1]
            if inner.startswith("*"):
                return self._parse_place(inner[1:]) + (("deref",),)
            d = 0
            # find the last top-level " as " or ".N: "
            for i in range(len(inner) - 1, -1, -1):
                ch = inner[i]
                if ch in ")]>":
                    d += 1
                elif ch in "([<":
                    d -= 1
                elif d == 0 and inner.startswith(" as ", i):
                    return self._parse_place(inner[:i]) + (("variant", inner[i + 4:].strip()),)
            d = 0
            for i, ch in enumerate(inner):
                if ch in "([":
                    d += 1
                elif ch in ")]":
                    d -= 1
                elif d == 0 and ch == ".":
                    m = re.match(r"\.(\d+): ", inner[i:])
                    if m and self._looks_like_place(inner[:i]):
                        return self._parse_place(inner[:i]) + (("field", int(m.group(1))),)
            raise Unknown("place syntax: " + s)
        m = re.match(r"(.*)\[(_\d+)\]$", s)
        if m:
            return self._parse_place(m.group(1)) + (("index", int(m.group(2)[1:])),)
        m = re.match(r"(.*)\[(\d+) of (\d+)\]$", s)
        if m:
            return self._parse_place(m.group(1)) + (("cindex", int(m.group(2))),)
        raise Unknown("place syntax: " + s)

    @staticmethod
    def _looks_like_place(s):
        s = s.strip()
        return bool(re.match(r"^(_\d+|\(.*\))(\[.*\])?$", s))

    def _resolve(self, st, fr, path, create=False):
        """Walk `path`; returns (container, key) such that container[key] is the place's slot.
        Containers: Frame.loc dict, Agg.f dict, Cell (key 'v'), python list (index)."""
        cont, key = fr.loc, path[0][1]
        for step in path[1:]:
            cur = self._slot_get(cont, key)
            if step[0] == "deref":
                if isinstance(cur, Ref):
                    cont, key = self._ref_slot(cur)
                elif isinstance(cur, Agg) and cur.kind == "Box":
                    cont, key = cur.f, 0
                else:
                    raise Unknown(f"deref of non-reference {cur!r}")
            elif step[0] == "variant":
                continue
            elif step[0] == "field":
                if cur is None and create:
                    cur = Agg("?", None, {})
                    self._slot_set(cont, key, cur)
                if not isinstance(cur, Agg):
                    raise Unknown(f"field {step[1]} of non-aggregate {cur!r}")
                cont, key = cur.f, step[1]
            elif step[0] == "index":
                idx = z3.simplify(fr.loc[step[1]])
                if not z3.is_bv_value(idx):
                    raise Unknown("symbolic array index")
                if isinstance(cur, Agg) and "items" in cur.f:
                    cur = cur.f["items"]
                if not isinstance(cur, list):
                    raise Unknown("index of non-array")
                if idx.as_long() >= len(cur):
                    raise PathEnd("panic", "index out of bounds")
                cont, key = cur, idx.as_long()
            elif step[0] == "cindex":
                cont, key = cur, step[1]
        return cont, key

    def _ref_slot(self, ref):
        if isinstance(ref.cell, Frame):
            return self._resolve(None, ref.cell, ref.path)
        if isinstance(ref.cell, Cell):
            if not ref.path:
                return ref.cell, "v"
            # path relative to the cell's value
            fake = Frame(None)
            fake.loc = {0: ref.cell.v}
            cont, key = self._resolve(None, fake, (("local", 0),) + ref.path)
            if cont is fake.loc:
                return ref.cell, "v"
            return cont, key
        raise Unknown("bad reference target")

    @staticmethod
    def _slot_get(cont, key):
        if isinstance(cont, Cell):
            return cont.v
        if isinstance(cont, list):
            return cont[key]
        return cont.get(key)

    @staticmethod
    def _slot_set(cont, key, val):
        if isinstance(cont, Cell):
            cont.v = val
        else:
            cont[key] = val

    def read_place(self, st, fr, path):
        cont, key = self._resolve(st, fr, path)
        v = self._slot_get(cont, key)
        return v

    def write_place(self, st, fr, path, val):
        cont, key = self._resolve(st, fr, path, create=True)
        self._slot_set(cont, key, val)

    def deref(self, ref):
        if not isinstance(ref, Ref):
            return ref
        cont, key = self._ref_slot(ref)
        return self._slot_get(cont, key)

    def store(self, ref, val):
        cont, key = self._ref_slot(ref)
        self._slot_set(cont, key, val)

    # ------------------------------------------------------------------ operands / rvalues
    def const(self, tok, fr=None):
        m = re.match(r"const (-?\d+)_(u8|u16|u32|u64|usize|u128|i8|i16|i32|i64|isize|i128)$", tok)
        if m:
            return BV(int(m.group(1)), INT_W[m.group(2)])
        if tok == "const true":
            return z3.BoolVal(True)
        if tok == "const false":
            return z3.BoolVal(False)
        if tok == "const ()":
            return Agg("unit")
        m = re.match(r"const (-?[0-9.eE+-]+|inf|-inf|NaN)(f32|f64)$", tok)
        if m:
            sort = z3.Float32() if m.group(2) == "f32" else z3.Float64()
            return z3.FPVal(float(m.group(1)), sort)
        m = re.match(r"const core::num::<impl (\w+)>::MAX$", tok) or re.match(r"const (\w+)::MAX$", tok)
        if m and m.group(1) in INT_W:
            w = INT_W[m.group(1)]
            return BV((1 << (w - 1)) - 1 if m.group(1) in SIGNED else (1 << w) - 1, w)
        m = re.match(r"const core::num::<impl (\w+)>::(MIN|BITS)$", tok) or re.match(r"const (\w+)::(MIN|BITS)$", tok)
        if m and m.group(1) in INT_W:
            w = INT_W[m.group(1)]
            if m.group(2) == "BITS":
                return BV(w, 32)
            return BV(1 << (w - 1) if m.group(1) in SIGNED else 0, w)
        m = re.match(r"const core::f(32|64)::<impl f\d+>::(\w+)$", tok) or re.match(r"const f(32|64)::(\w+)$", tok)
        if m:
            sort = z3.Float32() if m.group(1) == "32" else z3.Float64()
            name = m.group(2)
            if name == "INFINITY":
                return z3.fpPlusInfinity(sort)
            if name == "EPSILON":
                return z3.FPVal(2.0 ** -23 if m.group(1) == "32" else 2.0 ** -52, sort)
        if tok.startswith('const "'):
            return Opaque("str", tok[6:])
        m = re.match(r"const <D as (?:distance::)?Distance>::DEFAULT_OVERSAMPLING$", tok)
        if m:
            return z3.BitVec("DEFAULT_OVERSAMPLING", 64)
        pm = re.match(r"const (.*)::(\w+)(?:::<[^>]*>)?::promoted\[(\d+)\]$", tok)
        if pm:
            mod = pm.group(1).split("::")[0]
            suffix = f"::{pm.group(2)}::promoted[{pm.group(3)}]"
            hits = [f for n, f in self.fns.items() if n.startswith("const:") and
                    (n.endswith(suffix) or n == "const:" + suffix[2:])]
            if len(hits) > 1:
                hits = [f for f in hits if f.name.startswith("const:" + mod)] or hits
            if len(hits) != 1:
                raise Unknown(f"promoted constant {tok}: {len(hits)} definitions")
            sub = self.run(hits[0], [], env={}, pc=[])
            if len(sub) != 1 or sub[0].status != "return":
                raise Unknown("promoted constant did not evaluate: " + tok)
            self.encoded.discard(hits[0].name)
            return sub[0].value
        if tok.startswith("const "):
            cv = getattr(self.fns, "const_values", {})
            path = tok[6:].strip()
            best = None
            for name in cv:
                if (path == name or path.endswith("::" + name)) and (best is None or len(name) > len(best)):
                    best = name
            if best is not None and cv[best] != tok:
                return self.const(cv[best], fr)
        if tok.startswith("const "):
            # function items, zero-sized constants (closures without captures), promoted statics
            name = tok[6:].strip()
            if name.startswith("ZeroSized: "):
                name = name[len("ZeroSized: "):]
            return FnItem(name)
        raise Unknown("constant: " + tok)

    def operand(self, st, fr, tok):
        tok = tok.strip()
        m = re.match(r"(?:no_retag )?(copy|move) (.*)$", tok)
        if m:
            return self.read_place(st, fr, self.parse_place(m.group(2)))
        if tok.startswith("const "):
            return self.const(tok, fr)
        if re.match(r"^[\w<{]", tok) and "(" not in tok.split("<")[0]:
            return FnItem(tok)      # a bare function item used as a value
        raise Unknown("operand: " + tok)

    def operand_type(self, fr, tok):
        tok = tok.strip()
        m = re.match(r"(?:copy|move) _(\d+)$", tok)
        if m:
            return fr.fn.local_types.get(int(m.group(1)), "")
        m = re.match(r"const -?\d+_(\w+)$", tok)
        if m:
            return m.group(1)
        m = re.match(r"(?:copy|move) \(.*: ([^()]*)\)$", tok)
        if m:
            return m.group(1).strip()
        return ""

    def variant_index(self, enum_name, variant):
        base = enum_name.split("::")[-1]
        vs = self.enums.get(base)
        if vs is None or variant not in vs:
            raise Unknown(f"unknown enum variant {enum_name}::{variant}")
        return vs.index(variant)

    def rvalue(self, st, fr, rhs, dst_type=""):
        rhs = rhs.strip()
        # references
        m = re.match(r"&(?:raw (?:const|mut) )?(?:mut )?(?:'\w+ )?(.*)$", rhs)
        if m and not rhs.startswith("&&"):
            path = self.parse_place(m.group(1))
            # &(*_x) re-borrow: share the original target
            if path[-1] == ("deref",):
                v = self.read_place(st, fr, path[:-1])
                if isinstance(v, Ref):
                    return v
            return Ref(fr, path)
        m = re.match(r"discriminant\((.*)\)$", rhs)
        if m:
            v = self.read_place(st, fr, self.parse_place(m.group(1)))
            if isinstance(v, Agg) and v.disc is not None:
                d = v.disc
                w = INT_W.get(dst_type.strip())
                if w and z3.is_bv(d) and d.size() != w:      # #[repr(u8)] enums have a u8 discriminant
                    d = z3.Extract(w - 1, 0, d) if d.size() > w else z3.ZeroExt(w - d.size(), d)
                return d
            raise Unknown(f"discriminant of {v!r}")
        m = re.match(r"(Add|Sub|Mul|Div|Rem|BitAnd|BitOr|BitXor|Shl|Shr|Eq|Ne|Lt|Le|Gt|Ge|AddWithOverflow|"
                     r"SubWithOverflow|MulWithOverflow|AddUnchecked|SubUnchecked|MulUnchecked|ShlUnchecked|"
                     r"ShrUnchecked|Cmp|Offset)\((.*)\)$", rhs)
        if m:
            a_t, b_t = _split_top(m.group(2), ",")
            a, b = self.operand(st, fr, a_t), self.operand(st, fr, b_t)
            ty = self.operand_type(fr, a_t) or self.operand_type(fr, b_t)
            return self.binop(m.group(1), a, b, ty)
        m = re.match(r"PtrMetadata\((.*)\)$", rhs)
        if m:
            v = self.operand(st, fr, m.group(1))
            while isinstance(v, Ref):
                v = self.deref(v)
            if isinstance(v, Agg) and "items" in v.f:
                return BV(len(v.f["items"]), 64)
            if isinstance(v, Agg) and "len" in v.f:
                return v.f["len"]            # abstract slice / vector: symbolic length
            if isinstance(v, list):
                return BV(len(v), 64)
            raise Unknown("PtrMetadata of " + repr(v)[:60])
        m = re.match(r"(Not|Neg)\((.*)\)$", rhs)
        if m:
            a = self.operand(st, fr, m.group(2))
            if m.group(1) == "Not":
                return z3.Not(a) if z3.is_bool(a) else ~a
            return z3.fpNeg(a) if z3.is_fp(a) else -a
        m = re.match(r"(.*) as ([^()]*?) \((\w+)(?:\(.*\))?\)$", rhs)
        if m:
            return self.cast(self.operand(st, fr, m.group(1)), m.group(2).strip(), m.group(3),
                             self.operand_type(fr, m.group(1)))
        if rhs.startswith(("copy ", "move ", "const ", "no_retag ")):
            return self.operand(st, fr, rhs)
        # aggregates ----------------------------------------------------------------------
        if rhs == "()":
            return Agg("unit")
        if rhs.startswith("(") and rhs.endswith(")"):
            parts = [p for p in _split_top(rhs[1:-1], ",") if p.strip()]
            return Agg("tuple", None, {i: self.operand(st, fr, p) for i, p in enumerate(parts)})
        if rhs.startswith("[") and rhs.endswith("]"):
            inner = rhs[1:-1]
            mm = re.match(r"(.*); (\d+)$", inner)
            if mm:
                v = self.operand(st, fr, mm.group(1))
                return [v for _ in range(int(mm.group(2)))]
            return [self.operand(st, fr, p) for p in _split_top(inner, ",") if p.strip()]
        m = re.match(r"\{closure@([^}]*)\}(?: \{(.*)\})?$", rhs) or re.match(r"\{closure@([^}]*)\}\((.*)\)$", rhs)
        if rhs.startswith("{closure@"):
            mm = re.match(r"(\{closure@[^}]*\})\s*(?:\{(.*)\}|\((.*)\))?$", rhs)
            caps = []
            body = (mm.group(2) or mm.group(3) or "") if mm else ""
            for p in _split_top(body, ","):
                p = p.strip()
                if not p:
                    continue
                p = re.sub(r"^\w+: ", "", p)
                caps.append(self.operand(st, fr, p))
            return FnItem(mm.group(1) if mm else rhs, caps)
        # Path::<..>::Variant(args) | Path { f: v } | Path::Variant | Path(args)
        head, kind, body = self._split_aggregate(rhs)
        if head is None:
            raise Unknown("rvalue: " + rhs)
        segs = self._path_segments(head)
        name = segs[-1]
        parent = segs[-2] if len(segs) >= 2 else None
        disc = None
        agg_kind = name
        if parent is not None and parent in self.enums and name in self.enums[parent]:
            disc = BV(self.enums[parent].index(name), 64)
            agg_kind = parent
        elif name in self.enums and kind is None and False:
            pass
        fields = {}
        if kind == "struct":
            order = self.structs.get(name) if disc is None else None
            items = []
            for p in _split_top(body, ","):
                p = p.strip()
                if not p:
                    continue
                fm = re.match(r"(\w+): (.*)$", p, re.S)
                items.append((fm.group(1), self.operand(st, fr, fm.group(2))))
            if order and all(n in order for n, _ in items):
                for n, v in items:
                    fields[order.index(n)] = v
            else:
                for i, (n, v) in enumerate(items):
                    fields[i] = v
        elif kind == "tuple":
            for i, p in enumerate(x for x in _split_top(body, ",") if x.strip()):
                fields[i] = self.operand(st, fr, p)
        return Agg(agg_kind, disc, fields)

    @staticmethod
    def _split_aggregate(rhs):
        d = 0
        for i, ch in enumerate(rhs):
            if ch == "<":
                d += 1
            elif ch == ">" and rhs[i - 1] != "-":
                d -= 1
            elif d == 0 and ch == "(" and rhs.endswith(")"):
                return rhs[:i], "tuple", rhs[i + 1:-1]
            elif d == 0 and ch == "{" and rhs.endswith("}"):
                return rhs[:i].strip(), "struct", rhs[i + 1:-1]
        if d == 0 and re.search(r"[\w>]$", rhs) and "::" in rhs:
            return rhs, None, ""
        return None, None, None

    @staticmethod
    def _path_segments(head):
        segs, d, cur = [], 0, ""
        i = 0
        while i < len(head):
            ch = head[i]
            if ch == "<":
                d += 1
            elif ch == ">":
                d -= 1
            elif d == 0 and head.startswith("::", i):
                if cur:
                    segs.append(cur)
                cur = ""
                i += 2
                continue
            if d == 0 and ch not in "<>":
                cur += ch
            i += 1
        if cur:
            segs.append(cur)
        return [s.strip() for s in segs if s.strip()]

    def binop(self, op, a, b, ty):
        ty = ty.strip()
        if z3.is_fp(a) or z3.is_fp(b):
            rm = z3.RNE()
            f = {"Add": lambda: z3.fpAdd(rm, a, b), "Sub": lambda: z3.fpSub(rm, a, b),
                 "Mul": lambda: z3.fpMul(rm, a, b), "Div": lambda: z3.fpDiv(rm, a, b),
                 "Lt": lambda: z3.fpLT(a, b), "Le": lambda: z3.fpLEQ(a, b), "Gt": lambda: z3.fpGT(a, b),
                 "Ge": lambda: z3.fpGEQ(a, b), "Eq": lambda: z3.fpEQ(a, b), "Ne": lambda: z3.Not(z3.fpEQ(a, b))}
            if op not in f:
                raise Unknown("float op " + op)
            return f[op]()
        if z3.is_bool(a) and z3.is_bool(b):
            f = {"Eq": lambda: a == b, "Ne": lambda: a != b, "BitAnd": lambda: z3.And(a, b),
                 "BitOr": lambda: z3.Or(a, b), "BitXor": lambda: z3.Xor(a, b)}
            if op not in f:
                raise Unknown("bool op " + op)
            return f[op]()
        if isinstance(a, Agg) or isinstance(b, Agg):
            if op in ("Eq", "Ne") and isinstance(a, Agg) and isinstance(b, Agg) and a.disc is not None and not a.f and not b.f:
                return (a.disc == b.disc) if op == "Eq" else (a.disc != b.disc)
            raise Unknown(f"binop {op} on aggregates")
        signed = ty in SIGNED
        if op in ("Shl", "Shr", "ShlUnchecked", "ShrUnchecked") and a.size() != b.size():
            b = z3.ZeroExt(a.size() - b.size(), b) if b.size() < a.size() else z3.Extract(a.size() - 1, 0, b)
        if op in ("Add", "AddUnchecked"):
            return a + b
        if op in ("Sub", "SubUnchecked"):
            return a - b
        if op in ("Mul", "MulUnchecked"):
            return a * b
        if op == "Div":
            return a / b if signed else z3.UDiv(a, b)
        if op == "Rem":
            return z3.SRem(a, b) if signed else z3.URem(a, b)
        if op == "BitAnd":
            return a & b
        if op == "BitOr":
            return a | b
        if op == "BitXor":
            return a ^ b
        if op in ("Shl", "ShlUnchecked"):
            return a << b
        if op in ("Shr", "ShrUnchecked"):
            return (a >> b) if signed else z3.LShR(a, b)
        if op == "Eq":
            return a == b
        if op == "Ne":
            return a != b
        if op == "Lt":
            return (a < b) if signed else z3.ULT(a, b)
        if op == "Le":
            return (a <= b) if signed else z3.ULE(a, b)
        if op == "Gt":
            return (a > b) if signed else z3.UGT(a, b)
        if op == "Ge":
            return (a >= b) if signed else z3.UGE(a, b)
        if op in ("AddWithOverflow", "SubWithOverflow", "MulWithOverflow"):
            w = a.size()
            if op == "AddWithOverflow":
                r = a + b
                ov = z3.Not(z3.BVAddNoOverflow(a, b, signed)) if not signed else z3.Or(
                    z3.Not(z3.BVAddNoOverflow(a, b, True)), z3.Not(z3.BVAddNoUnderflow(a, b)))
            elif op == "SubWithOverflow":
                r = a - b
                ov = z3.ULT(a, b) if not signed else z3.Or(z3.Not(z3.BVSubNoOverflow(a, b)),
                                                             z3.Not(z3.BVSubNoUnderflow(a, b, True)))
            else:
                r = a * b
                ov = z3.Not(z3.BVMulNoOverflow(a, b, signed))
                if signed:
                    ov = z3.Or(ov, z3.Not(z3.BVMulNoUnderflow(a, b)))
            return Agg("tuple", None, {0: r, 1: ov})
        raise Unknown("binop " + op)

    def cast(self, v, ty, kind, src_ty=""):
        if kind in ("PointerCoercion", "PtrToPtr", "Transmute", "PointerExposeProvenance", "Subtype"):
            return v
        if kind == "IntToInt":
            if z3.is_bool(v):
                v = z3.If(v, BV(1, 8), BV(0, 8))
            w = INT_W.get(ty)
            if w is None:
                raise Unknown("cast to " + ty)
            if isinstance(v, Agg) and v.disc is not None and not v.f:
                v = v.disc
            if not z3.is_bv(v):
                raise Unknown(f"IntToInt on {v!r}")
            if v.size() == w:
                return v
            if v.size() > w:
                return z3.Extract(w - 1, 0, v)
            return z3.SignExt(w - v.size(), v) if src_ty.strip() in SIGNED else z3.ZeroExt(w - v.size(), v)
        if kind == "IntToFloat":
            sort = z3.Float32() if ty == "f32" else z3.Float64()
            return z3.fpSignedToFP(z3.RNE(), v, sort) if src_ty.strip() in SIGNED else z3.fpUnsignedToFP(z3.RNE(), v, sort)
        if kind == "FloatToFloat":
            sort = z3.Float32() if ty == "f32" else z3.Float64()
            return z3.fpFPToFP(z3.RNE(), v, sort)
        if kind == "FloatToInt":
            raise Unknown("FloatToInt cast")
        raise Unknown("cast kind " + kind)

    # ------------------------------------------------------------------ execution
    def new_state(self, fn, args, env=None, pc=None):
        st = State()
        fr = Frame(fn)
        for i, a in enumerate(args):
            fr.loc[i + 1] = a
        st.stack.append(fr)
        st.env = env or {}
        st.pc = list(pc or [])
        return st

    def run(self, fn, args, env=None, pc=None, max_paths=5000, deadline=None):
        """Explore all feasible paths; returns a list of Final."""
        self.encoded.add(fn.name)
        finals = []
        if len(pc or []) >= 3 and not self._in_run:
            self.set_base(pc)
        self._in_run += 1
        try:
            return self._run(fn, args, env, pc, max_paths, deadline, finals)
        finally:
            self._in_run -= 1

    def _run(self, fn, args, env, pc, max_paths, deadline, finals):
        work = [self.new_state(fn, args, env, pc)]
        while work:
            if deadline and time.time() > deadline:
                finals.append(Final("unknown", None, work[-1], "engine deadline reached"))
                break
            st = work.pop()
            try:
                succ = self.step_block(st)
            except PathEnd as e:
                finals.append(Final(e.status, getattr(e, "value", None), st, e.info))
                continue
            except Unknown as e:
                fr = st.stack[-1]
                finals.append(Final("unknown", None, st, f"{e} [in {short(fr.fn.name)} bb{fr.bb}]"))
                continue
            for s in succ:
                if isinstance(s, Final):
                    finals.append(s)
                else:
                    work.append(s)
            if len(finals) + len(work) > max_paths:
                finals.append(Final("unknown", None, st, "path budget exceeded"))
                break
        return finals

    def step_block(self, st):
        """Execute the current block of the top frame; returns successor states / Finals."""
        fr = st.stack[-1]
        fn = fr.fn
        st.steps += 1
        if st.steps > self.max_steps:
            raise PathEnd("unwind", f"step budget {self.max_steps} exceeded in {short(fn.name)}")
        stmts = fn.blocks[fr.bb]
        for s in stmts[:-1]:
            self.statement(st, fr, s)
        t = stmts[-1]
        if t == "return":
            rv = fr.loc.get(0)
            if fr.wrap == "ok":
                rv = Agg("Result", BV(0, 64), {0: rv})
            elif fr.wrap == "err":
                rv = Agg("Result", BV(1, 64), {0: rv})
            st.stack.pop()
            if not st.stack:
                return [Final("return", rv, st)]
            caller = st.stack[-1]
            if fr.cont is not None:
                outs = fr.cont(self, st, rv)
                return self.apply_outcomes(st, caller, outs, fr.ret_dst, fr.ret_bb, "continuation")
            self.write_place(st, caller, fr.ret_dst, rv)
            caller.bb = fr.ret_bb
            return [st]
        if t == "unreachable":
            raise PathEnd("panic", f"reached `unreachable` in {short(fn.name)} bb{fr.bb}")
        if t.startswith("resume") or t.startswith("unwind "):
            raise PathEnd("panic", "unwinding")
        m = re.match(r"goto -> bb(\d+)$", t)
        if m:
            fr.bb = int(m.group(1))
            return [st]
        m = re.match(r"drop\((.*)\) -> \[return: bb(\d+)", t)
        if m:
            fr.bb = int(m.group(2))
            return [st]
        m = re.match(r"switchInt\((.*)\) -> \[(.*)\]$", t)
        if m:
            return self.switch(st, fr, m.group(1), m.group(2))
        m = re.match(r"assert\((!?)(.*?), (\".*)\) -> \[success: bb(\d+)", t)
        if m:
            cond = self.operand(st, fr, m.group(2))
            if m.group(1) == "!":
                cond = z3.Not(cond)
            out = []
            if self.feasible(st.pc, z3.Not(cond)):
                bad = st.clone()
                bad.pc.append(z3.Not(cond))
                out.append(Final("panic", None, bad,
                                 f"rustc-emitted assert fails in {short(fn.name)} bb{fr.bb}: {m.group(3)[:120]}"))
            if self.feasible(st.pc, cond):
                st.pc.append(cond)
                fr.bb = int(m.group(4))
                out.append(st)
            return out
        m = re.match(r"(?:_\d+ = )?(?:core::panicking::)?(panic|panic_fmt|panic_bounds_check|assert_failed|"
                     r"unreachable_display|panic_cold_explicit|begin_panic|panic_explicit|unwrap_failed|expect_failed)"
                     r"(?:::<.*>)?\((.*)\) -> ", t)
        if m:
            raise PathEnd("panic", f"{m.group(1)}({m.group(2)[:100]}) in {short(fn.name)} bb{fr.bb}")
        m = re.match(r"(.*) -> \[return: bb(\d+)", t) or re.match(r"(.*) -> (unwind .*|bb\d+)$", t)
        if m and " = " in m.group(1):
            return self.call(st, fr, m.group(1), int(m.group(2)) if m.group(2).isdigit() else None)
        raise Unknown("terminator: " + t)

    def statement(self, st, fr, s):
        m = re.match(r"(.*?) = (.*)$", s, re.S)
        if not m:
            if s.startswith(("assume(", "Assume", "Deinit", "deinit(", "SetDiscriminant")):
                return
            raise Unknown("statement: " + s)
        dst = self.parse_place(m.group(1))
        ty = fr.fn.local_types.get(dst[0][1], "") if len(dst) == 1 else ""
        self.write_place(st, fr, dst, self.rvalue(st, fr, m.group(2), ty))

    def switch(self, st, fr, op_tok, arms_tok):
        v = self.operand(st, fr, op_tok)
        if isinstance(v, Agg) and v.disc is not None:
            v = v.disc
        arms = []
        for a in arms_tok.split(", "):
            k, tgt = a.split(": ")
            arms.append((k, int(tgt[2:])))
        conds, taken = [], []
        for k, tgt in arms:
            if k == "otherwise":
                c = z3.And([z3.Not(x) for x in taken]) if taken else z3.BoolVal(True)
            elif z3.is_bool(v):
                c = z3.Not(v) if int(k) == 0 else v
            else:
                c = v == BV(int(k), v.size())
            if k != "otherwise":
                taken.append(c)
            conds.append((z3.simplify(c), tgt))
        feas = []
        for c, tgt in conds:
            if z3.is_false(c):
                continue
            if z3.is_true(c):
                feas = [(None, tgt)]
                break
            if fr.fn.blocks.get(tgt) == ["unreachable"]:
                # the compiler's own exhaustiveness arm: feasible only if the value is out of range
                if not self.feasible(st.pc, c):
                    continue
            elif not self.feasible(st.pc, c):
                continue
            feas.append((c, tgt))
        out = []
        for i, (c, tgt) in enumerate(feas):
            s2 = st if i == len(feas) - 1 else st.clone()
            if c is not None:
                s2.pc.append(c)
            s2.stack[-1].bb = tgt
            if len(feas) > 1:
                s2.trace.append((short(fr.fn.name), fr.bb, tgt))
            out.append(s2)
        return out

    def apply_outcomes(self, st, fr, outs, dst, ret_bb, callee):
        """Turn model outcomes (value, extra condition, state) into successor states / Finals."""
        res = []
        for i, (val, cond, st2) in enumerate(outs):
            s2 = st2 if st2 is not None else st
            if cond is not None:
                s2.pc.append(cond)
            f2 = s2.stack[-1]
            if val is PANIC:
                res.append(Final("panic", None, s2, f"{callee[:80]} panics (model) in {short(fr.fn.name)} bb{fr.bb}"))
                continue
            if isinstance(val, BreakPoint):
                res.append(Final("break", val.payload, s2, val.tag))
                continue
            wrap = None
            if type(val).__name__ == "WrapOk":
                wrap, val = "ok", val.push
            elif type(val).__name__ == "WrapErr":
                wrap, val = "err", val.push
            cont = None
            if type(val).__name__ == "ParCall":
                cont, val = val.cont, val.push
            if type(val).__name__ == "PushCall":
                depth = sum(1 for f in s2.stack if f.fn is val.fn)
                if depth >= self.max_depth:
                    res.append(Final("unwind", None, s2, f"recursion bound reached for {short(val.fn.name)}"))
                    continue
                self.encoded.add(val.fn.name)
                nf = Frame(val.fn)
                for k, x in enumerate(val.args):
                    nf.loc[k + 1] = x
                nf.ret_dst, nf.ret_bb = dst, ret_bb
                nf.wrap = wrap
                nf.cont = cont
                s2.stack.append(nf)
                res.append(s2)
                continue
            self.write_place(s2, f2, dst, val)
            if ret_bb is None:
                raise PathEnd("panic", "diverging call returned")
            f2.bb = ret_bb
            res.append(s2)
        return res

    # ------------------------------------------------------------------ calls
    def parse_call(self, head):
        dst, rest = head.split(" = ", 1)
        assert rest.endswith(")"), rest
        d, k = 0, len(rest) - 1
        while k >= 0:
            if rest[k] == ")":
                d += 1
            elif rest[k] == "(":
                d -= 1
                if d == 0:
                    break
            k -= 1
        callee = rest[:k].strip()
        argstr = rest[k + 1:-1]
        args = [a for a in _split_top(argstr, ",") if a.strip()]
        return dst.strip(), callee, args

    def call(self, st, fr, head, ret_bb):
        dst_s, callee, arg_toks = self.parse_call(head)
        dst = self.parse_place(dst_s)
        args = [self.operand(st, fr, a) for a in arg_toks]
        dst_ty = fr.fn.local_types.get(dst[0][1], "") if len(dst) == 1 else ""
        # 1. calls through a local holding a function item / closure
        m = re.match(r"^(?:move|copy) _(\d+)$", callee)
        if m:
            raise Unknown("indirect call through " + callee)
        # 2. the model table
        for rx, handler in self.models:
            if rx.search(callee):
                self.modelled.add(rx.pattern)
                outs = handler(self, st, callee, args, dst_ty)
                if outs is None:
                    continue
                return self.apply_outcomes(st, fr, outs, dst, ret_bb, callee)
        # 3. inline the callee's MIR
        for ent in self.inline:
            rx, fn_rx = ent[0], ent[1]
            hdr = ent[2] if len(ent) > 2 else None
            if rx.search(callee):
                if "{name}" in fn_rx:
                    last = [x for x in self._path_segments(callee) if x][-1]
                    fn_rx = fn_rx.replace("{name}", re.escape(last))
                hits = [n for n in self.fns if re.search(fn_rx, n) and (hdr is None or hdr in self.fns[n].header)]
                if len(hits) != 1:
                    raise Unknown(f"inline target for {callee}: {len(hits)} candidates")
                target = self.fns[hits[0]]
                depth = sum(1 for f in st.stack if f.fn is target)
                if depth >= self.max_depth:
                    raise PathEnd("unwind", f"recursion bound {self.max_depth} reached for {short(target.name)}")
                self.encoded.add(target.name)
                nf = Frame(target)
                for i, a in enumerate(args):
                    nf.loc[i + 1] = a
                nf.ret_dst, nf.ret_bb = dst, ret_bb
                st.stack.append(nf)
                return [st]
        raise Unknown("no model and no MIR for callee: " + callee)


PANIC = object()


class BreakPoint:
    """Outcome value of a model that ends the path on purpose (the harness inspects the state)."""

    def __init__(self, tag, payload=None):
        self.tag, self.payload = tag, payload


def short(name):
    return re.sub(r"<impl at [^>]*>", "", name).replace("::::", "::").strip(":")


def ite(c, a, b):
    """If-then-else over engine values of the same shape."""
    if isinstance(a, z3.ExprRef) and isinstance(b, z3.ExprRef):
        return z3.If(c, a, b)
    if isinstance(a, Agg) and isinstance(b, Agg):
        disc = None
        if a.disc is not None and b.disc is not None:
            disc = z3.If(c, a.disc, b.disc)
        keys = set(a.f) | set(b.f)
        return Agg(a.kind, disc, {k: ite(c, a.f.get(k, b.f.get(k)), b.f.get(k, a.f.get(k))) for k in keys})
    return a
