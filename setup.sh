#!/bin/sh
# Offline setup: nothing to fetch; warms nothing that checks depend on (each check rebuilds from /repo).
set -e
cd "$(dirname "$0")"
mkdir -p evidence replays .cache
python3-vt -c "import z3, jsonschema; print('python deps ok')"
cargo kani --version >/dev/null
echo "setup ok"
