//! W obligations on `prepare_changing_distance` (C18, C07): constant-shape database (concrete
//! keys, so that cursor loops have concrete trip counts), symbolic vectors.
use heed::{RwTxn, Store, CAP};

use super::*;
use crate::distance::{
    BinaryQuantizedEuclidean, BinaryQuantizedManhattan, DotProduct, Euclidean, Manhattan,
};
use crate::verif_util::*;

const IDX: u16 = 7;
const DIM: usize = 1;

/// Database: index 7 = {metadata, Tree(2) bucket, Item(1), Item(u32::MAX)}; neighbours:
/// (6, Item, 1) and (8, Tree, 0) with arbitrary bytes.
fn database(item_val_len: usize) -> (Store, [[u8; heed::VMAX]; 2]) {
    let mut s = Store::new();
    let mv: [u8; 12] = kani::any();
    s.set_slot(0, ref_key(IDX, 0, 0), &mv);
    let tv: [u8; 9] = kani::any();
    s.set_slot(1, ref_key(IDX, 2, 2), &tv);
    let mut vals = [[0u8; heed::VMAX]; 2];
    let mut j = 0;
    while j < 2 {
        let mut v: [u8; heed::VMAX] = kani::any();
        v[0] = 0; // leaf tag
        vals[j] = v;
        j += 1;
    }
    s.set_slot_sym(2, ref_key(IDX, 3, 1), vals[0], item_val_len);
    s.set_slot_sym(3, ref_key(IDX, 3, u32::MAX), vals[1], item_val_len);
    let nv: [u8; 8] = kani::any();
    s.set_slot(4, ref_key(IDX - 1, 3, 1), &nv);
    let nv: [u8; 8] = kani::any();
    s.set_slot(5, ref_key(IDX + 1, 2, 0), &nv);
    (s, vals)
}

fn common_post(before: &Snap, st: &Store) {
    // forest and metadata of the index are gone, the index demands a build
    let mut i = 0;
    while i < CAP {
        if st.used[i] && key_index(st.keys[i]) == IDX {
            assert!(key_kind(st.keys[i]) == 3);
        }
        i += 1;
    }
    assert!(slot_of(st, IDX, 3, 1).is_some() && slot_of(st, IDX, 3, u32::MAX).is_some());
    // other indexes byte-identical
    assert!(frame_except(before, st, |k| key_index(k) == IDX));
}

fn f32_bytes_at(v: &[u8; heed::VMAX], off: usize, n: usize, out: &mut [u8; 16]) {
    let mut j = 0;
    while j < n {
        out[j] = v[off + j];
        j += 1;
    }
}

macro_rules! f32_to_f32 {
    ($name:ident, $d:ty, $nd:ty, $ohl:expr, $nhl:expr) => {
        /// f32 -> f32 metric: same item keys, each leaf = 0 | new zero header | the same 12
        /// vector bytes; no tree key, no metadata; neighbours untouched.
        #[kani::proof]
        #[kani::unwind(24)]
        #[kani::stub(alloc::fmt::format, stub_format)]
        fn $name() {
            let (mut store, vals) = database(1 + $ohl + 4 * DIM);
            let before = snap(&store);
            let w = Writer::<$d>::new(heed::Database::model(), IDX, DIM);
            let mut wtxn = RwTxn::on(&mut store);
            let nw = ok(w.prepare_changing_distance::<$nd>(&mut wtxn));
            assert!(nw.index == IDX && nw.dimensions == DIM);
            assert!(ok(nw.need_build(&wtxn)));
            let st = wtxn.store();
            common_post(&before, st);
            let mut j = 0;
            while j < 2 {
                let id = if j == 0 { 1 } else { u32::MAX };
                let mut exp = [0u8; 1 + $nhl + 4 * DIM];
                let mut t = 0;
                while t < 4 * DIM {
                    exp[1 + $nhl + t] = vals[j][1 + $ohl + t];
                    t += 1;
                }
                assert!(slot_val_is(st, slot_of(st, IDX, 3, id).unwrap(), &exp));
                j += 1;
            }
            kani::cover!(vals[0][1 + $ohl] == 0xff);
            core::mem::forget(nw);
        }
    };
}
f32_to_f32!(change_euclidean_to_manhattan, Euclidean, Manhattan, 4, 4);
f32_to_f32!(change_euclidean_to_dot_product, Euclidean, DotProduct, 4, 8);
f32_to_f32!(change_dot_product_to_euclidean, DotProduct, Euclidean, 8, 4);

/// Same metric: nothing changes at all.
#[kani::proof]
#[kani::unwind(24)]
#[kani::stub(alloc::fmt::format, stub_format)]
fn change_to_same_metric_is_noop() {
    let (mut store, _vals) = database(1 + 4 + 4 * DIM);
    let before = snap(&store);
    let w = Writer::<Euclidean>::new(heed::Database::model(), IDX, DIM);
    let mut wtxn = RwTxn::on(&mut store);
    let nw = ok(w.prepare_changing_distance::<Euclidean>(&mut wtxn));
    let st = wtxn.store();
    assert!(frame_except(&before, st, |_| false));
    assert!(st.writes == 0);
    kani::cover!(true);
    core::mem::forget(nw);
}

/// f32 -> quantised: each leaf = 0 | zero bias | sign pattern of the 3 stored components.
#[kani::proof]
#[kani::unwind(70)]
#[kani::stub(alloc::fmt::format, stub_format)]
fn change_euclidean_to_bq_euclidean() {
    let (mut store, vals) = database(1 + 4 + 4 * DIM);
    let before = snap(&store);
    let w = Writer::<Euclidean>::new(heed::Database::model(), IDX, DIM);
    let mut wtxn = RwTxn::on(&mut store);
    let nw = ok(w.prepare_changing_distance::<BinaryQuantizedEuclidean>(&mut wtxn));
    assert!(ok(nw.need_build(&wtxn)));
    let st = wtxn.store();
    common_post(&before, st);
    let mut j = 0;
    while j < 2 {
        let id = if j == 0 { 1 } else { u32::MAX };
        let mut word: u64 = 0;
        let mut t = 0;
        while t < DIM {
            let o = 5 + 4 * t;
            let x = u32::from_ne_bytes([vals[j][o], vals[j][o + 1], vals[j][o + 2], vals[j][o + 3]]);
            if x >> 31 == 0 {
                word |= 1 << t;
            }
            t += 1;
        }
        let wb = word.to_ne_bytes();
        let exp = [0u8, 0, 0, 0, 0, wb[0], wb[1], wb[2], wb[3], wb[4], wb[5], wb[6], wb[7]];
        assert!(slot_val_is(st, slot_of(st, IDX, 3, id).unwrap(), &exp));
        j += 1;
    }
    kani::cover!(true);
    core::mem::forget(nw);
}

/// quantised -> f32: each leaf = 0 | zero bias | the +1/-1 vector **at the declared dimension**
/// (3 floats), i.e. exactly what add_item under the new metric would store for the vector that
/// item_vector returns under the old one.
#[kani::proof]
#[kani::unwind(300)]
#[kani::stub(alloc::fmt::format, stub_format)]
#[kani::stub(core::core_arch::x86::sse41::_mm_blendv_ps, stub_blendv_ps)]
fn change_bq_euclidean_to_euclidean() {
    let (mut store, vals) = database(1 + 4 + 8);
    let before = snap(&store);
    let w = Writer::<BinaryQuantizedEuclidean>::new(heed::Database::model(), IDX, DIM);
    let mut wtxn = RwTxn::on(&mut store);
    let r = w.prepare_changing_distance::<Euclidean>(&mut wtxn);
    let nw = match r {
        Ok(nw) => nw,
        Err(e) => {
            core::mem::forget(e);
            // the model store rejects values > 48 bytes: a leaf of 3 floats is 17 bytes
            kani::assert(false, "re-encoded leaf is not the declared-dimension vector (write rejected: value too large)");
            return;
        }
    };
    let st = wtxn.store();
    common_post(&before, st);
    let mut j = 0;
    while j < 2 {
        let id = if j == 0 { 1 } else { u32::MAX };
        let mut exp = [0u8; 1 + 4 + 4 * DIM];
        let mut t = 0;
        while t < DIM {
            let bit = (vals[j][5 + t / 8] >> (t % 8)) & 1;
            let f: f32 = if bit == 1 { 1.0 } else { -1.0 };
            let fb = f.to_ne_bytes();
            exp[5 + 4 * t] = fb[0];
            exp[6 + 4 * t] = fb[1];
            exp[7 + 4 * t] = fb[2];
            exp[8 + 4 * t] = fb[3];
            t += 1;
        }
        assert!(slot_val_is(st, slot_of(st, IDX, 3, id).unwrap(), &exp));
        j += 1;
    }
    kani::cover!(true);
    core::mem::forget(nw);
}

/// quantised -> quantised: vector bytes unchanged (sign pattern of the sign pattern).
#[kani::proof]
#[kani::unwind(300)]
#[kani::stub(alloc::fmt::format, stub_format)]
#[kani::stub(core::core_arch::x86::sse41::_mm_blendv_ps, stub_blendv_ps)]
fn change_bq_euclidean_to_bq_manhattan() {
    let (mut store, vals) = database(1 + 4 + 8);
    let before = snap(&store);
    let w = Writer::<BinaryQuantizedEuclidean>::new(heed::Database::model(), IDX, DIM);
    let mut wtxn = RwTxn::on(&mut store);
    let nw = ok(w.prepare_changing_distance::<BinaryQuantizedManhattan>(&mut wtxn));
    let st = wtxn.store();
    common_post(&before, st);
    let mut j = 0;
    while j < 2 {
        let id = if j == 0 { 1 } else { u32::MAX };
        let mut exp = [0u8; 13];
        let mut t = 0;
        while t < 8 {
            exp[5 + t] = vals[j][5 + t];
            t += 1;
        }
        assert!(slot_val_is(st, slot_of(st, IDX, 3, id).unwrap(), &exp));
        j += 1;
    }
    kani::cover!(true);
    core::mem::forget(nw);
}


/// Minimal database: one item of the index, one tree node of the index, one neighbour.
#[kani::proof]
#[kani::unwind(10)]
#[kani::stub(alloc::fmt::format, stub_format)]
fn change_min_euclidean_to_manhattan() {
    let mut store = Store::new();
    let tv: [u8; 9] = kani::any();
    store.set_slot(0, ref_key(IDX, 2, 2), &tv);
    let mut v: [u8; 9] = kani::any();
    v[0] = 0;
    store.set_slot(1, ref_key(IDX, 3, 1), &v);
    let nv: [u8; 8] = kani::any();
    store.set_slot(2, ref_key(IDX + 1, 2, 0), &nv);
    let before = snap(&store);
    let w = Writer::<Euclidean>::new(heed::Database::model(), IDX, 1);
    let mut wtxn = RwTxn::on(&mut store);
    let nw = ok(w.prepare_changing_distance::<Manhattan>(&mut wtxn));
    let st = wtxn.store();
    assert!(slot_of(st, IDX, 2, 2).is_none());
    let exp = [0u8, 0, 0, 0, 0, v[5], v[6], v[7], v[8]];
    assert!(slot_val_is(st, slot_of(st, IDX, 3, 1).unwrap(), &exp));
    assert!(frame_except(&before, st, |k| key_index(k) == IDX));
    kani::cover!(true);
    core::mem::forget(nw);
}
