//! Helpers shared by all Kani harnesses (injected as `crate::verif_util`, cfg(kani) only).
#![allow(dead_code, unused_imports)]

use crate::node_id::{NodeId, NodeMode};
use heed::{Store, CAP};

/// Stub for `alloc::fmt::format`: error texts are never observed by the harnesses.
pub(crate) fn stub_format(_args: core::fmt::Arguments<'_>) -> String {
    String::new()
}

/// Stub for `std_detect::detect::cache::test`: "CPU feature not detected".
pub(crate) fn no_cpu_feature(_bit: u32) -> bool {
    false
}

/// Unwrap a Result without running the error's drop glue (Box<dyn Error> explodes in CBMC).
pub(crate) fn ok<T, E>(r: Result<T, E>) -> T {
    match r {
        Ok(v) => v,
        Err(e) => {
            core::mem::forget(e);
            kani::assert(false, "unexpected Err");
            loop {}
        }
    }
}

pub(crate) fn any_mode() -> NodeMode {
    match kani::any::<u8>() % 4 {
        0 => NodeMode::Metadata,
        1 => NodeMode::Updated,
        2 => NodeMode::Tree,
        _ => NodeMode::Item,
    }
}

pub(crate) fn any_node_id() -> NodeId {
    NodeId { mode: any_mode(), item: kani::any() }
}

/// Reference key encoder (DESIGN.md appendix A) -- independent of `KeyCodec`.
pub(crate) fn ref_key(index: u16, kind: u8, id: u32) -> [u8; 8] {
    let i = index.to_be_bytes();
    let d = id.to_be_bytes();
    [i[0], i[1], kind, d[0], d[1], d[2], d[3], 0]
}

pub(crate) fn ref_key_u64(index: u16, kind: u8, id: u32) -> u64 {
    ((index as u64) << 48) | ((kind as u64) << 40) | ((id as u64) << 8)
}

/// Slot holding the key `(index, kind, id)` in the raw model store, if any.
pub(crate) fn slot_of(st: &Store, index: u16, kind: u8, id: u32) -> Option<usize> {
    let k = ref_key_u64(index, kind, id);
    let mut r = None;
    let mut i = 0;
    while i < CAP {
        if st.used[i] && st.keys[i] == k {
            r = Some(i);
        }
        i += 1;
    }
    r
}

/// A symbolic source of randomness: every draw is an arbitrary value.
pub(crate) struct AnyRng;
impl rand::RngCore for AnyRng {
    fn next_u32(&mut self) -> u32 {
        kani::any()
    }
    fn next_u64(&mut self) -> u64 {
        kani::any()
    }
    fn fill_bytes(&mut self, d: &mut [u8]) {
        for x in d {
            *x = kani::any();
        }
    }
    fn try_fill_bytes(&mut self, d: &mut [u8]) -> Result<(), rand::Error> {
        self.fill_bytes(d);
        Ok(())
    }
}

/// Snapshot of the raw store for frame conditions ("everything else is byte-identical").
#[derive(Clone, Copy)]
pub(crate) struct Snap {
    pub used: [bool; CAP],
    pub keys: [u64; CAP],
    pub vlen: [usize; CAP],
    pub vals: [[u8; heed::VMAX]; CAP],
}

pub(crate) fn snap(st: &Store) -> Snap {
    Snap { used: st.used, keys: st.keys, vlen: st.vlen, vals: st.vals }
}

/// true iff the entry with key `k` is the same (present with the same bytes, or absent) in both.
pub(crate) fn same_entry(before: &Snap, after: &Store, k: u64) -> bool {
    let mut bi = CAP;
    let mut ai = CAP;
    let mut i = 0;
    while i < CAP {
        if before.used[i] && before.keys[i] == k {
            bi = i;
        }
        if after.used[i] && after.keys[i] == k {
            ai = i;
        }
        i += 1;
    }
    if bi == CAP || ai == CAP {
        return bi == CAP && ai == CAP;
    }
    let mut s = 0;
    let mut okk = true;
    while s < CAP {
        let mut t = 0;
        while t < CAP {
            if s == bi && t == ai {
                if before.vlen[s] != after.vlen[t] {
                    okk = false;
                } else {
                    let mut j = 0;
                    while j < heed::VMAX {
                        if j < before.vlen[s] && before.vals[s][j] != after.vals[t][j] {
                            okk = false;
                        }
                        j += 1;
                    }
                }
            }
            t += 1;
        }
        s += 1;
    }
    okk
}

/// Frame condition over the whole store: every key present before or after, except those for
/// which `exempt(key)` holds, is unchanged.
pub(crate) fn frame_except(before: &Snap, after: &Store, exempt: impl Fn(u64) -> bool) -> bool {
    let mut i = 0;
    let mut r = true;
    while i < CAP {
        if before.used[i] && !exempt(before.keys[i]) && !same_entry(before, after, before.keys[i]) {
            r = false;
        }
        if after.used[i] && !exempt(after.keys[i]) && !same_entry(before, after, after.keys[i]) {
            r = false;
        }
        i += 1;
    }
    r
}

pub(crate) fn key_index(k: u64) -> u16 {
    (k >> 48) as u16
}
pub(crate) fn key_kind(k: u64) -> u8 {
    (k >> 40) as u8
}
pub(crate) fn key_id(k: u64) -> u32 {
    (k >> 8) as u32
}
