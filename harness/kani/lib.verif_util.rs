//! Helpers shared by all Kani harnesses (injected as `crate::verif_util`, cfg(kani) only).
#![allow(dead_code, unused_imports)]

use crate::node_id::{NodeId, NodeMode};
use heed::{Store, CAP};

/// Stub for `alloc::fmt::format`: error texts are never observed by the harnesses.
pub(crate) fn stub_format(_args: core::fmt::Arguments<'_>) -> String {
    String::new()
}

/// Stub for `std_detect::detect::cache::test`: "CPU feature not detected".
pub(crate) fn no_cpu_feature(_bit: u32) -> bool {
    false
}

/// Unwrap a Result without running the error's drop glue (Box<dyn Error> explodes in CBMC).
pub(crate) fn ok<T, E>(r: Result<T, E>) -> T {
    match r {
        Ok(v) => v,
        Err(e) => {
            core::mem::forget(e);
            kani::assert(false, "unexpected Err");
            loop {}
        }
    }
}

pub(crate) fn any_mode() -> NodeMode {
    match kani::any::<u8>() % 4 {
        0 => NodeMode::Metadata,
        1 => NodeMode::Updated,
        2 => NodeMode::Tree,
        _ => NodeMode::Item,
    }
}

pub(crate) fn any_node_id() -> NodeId {
    NodeId { mode: any_mode(), item: kani::any() }
}

/// Reference key encoder (DESIGN.md appendix A) -- independent of `KeyCodec`.
pub(crate) fn ref_key(index: u16, kind: u8, id: u32) -> [u8; 8] {
    let i = index.to_be_bytes();
    let d = id.to_be_bytes();
    [i[0], i[1], kind, d[0], d[1], d[2], d[3], 0]
}

pub(crate) fn ref_key_u64(index: u16, kind: u8, id: u32) -> u64 {
    ((index as u64) << 48) | ((kind as u64) << 40) | ((id as u64) << 8)
}

/// Slot holding the key `(index, kind, id)` in the raw model store, if any.
pub(crate) fn slot_of(st: &Store, index: u16, kind: u8, id: u32) -> Option<usize> {
    let k = ref_key_u64(index, kind, id);
    let mut r = None;
    let mut i = 0;
    while i < CAP {
        if st.used[i] && st.keys[i] == k {
            r = Some(i);
        }
        i += 1;
    }
    r
}

/// A symbolic source of randomness: every draw is an arbitrary value.
pub(crate) struct AnyRng;
impl rand::RngCore for AnyRng {
    fn next_u32(&mut self) -> u32 {
        kani::any()
    }
    fn next_u64(&mut self) -> u64 {
        kani::any()
    }
    fn fill_bytes(&mut self, d: &mut [u8]) {
        for x in d {
            *x = kani::any();
        }
    }
    fn try_fill_bytes(&mut self, d: &mut [u8]) -> Result<(), rand::Error> {
        self.fill_bytes(d);
        Ok(())
    }
}

/// Snapshot of the raw store for frame conditions ("everything else is byte-identical").
#[derive(Clone, Copy)]
pub(crate) struct Snap {
    pub used: [bool; CAP],
    pub keys: [u64; CAP],
    pub vlen: [usize; CAP],
    pub vals: [[u8; heed::VMAX]; CAP],
}

pub(crate) fn snap(st: &Store) -> Snap {
    Snap { used: st.used, keys: st.keys, vlen: st.vlen, vals: st.vals }
}

/// First 16 value bytes as one little-endian word.
pub(crate) fn val16(v: &[u8; heed::VMAX]) -> u128 {
    let a: [u8; 16] = [v[0], v[1], v[2], v[3], v[4], v[5], v[6], v[7], v[8], v[9], v[10], v[11], v[12], v[13], v[14], v[15]];
    u128::from_le_bytes(a)
}
/// Bytes 16..32 as one little-endian word.
pub(crate) fn val16b(v: &[u8; heed::VMAX]) -> u128 {
    let a: [u8; 16] = [v[16], v[17], v[18], v[19], v[20], v[21], v[22], v[23], v[24], v[25], v[26], v[27], v[28], v[29], v[30], v[31]];
    u128::from_le_bytes(a)
}
/// Mask selecting the first `len` (<= 16) bytes of a `val16` word.
pub(crate) fn mask16(len: usize) -> u128 {
    if len >= 16 { u128::MAX } else { (1u128 << (8 * len as u32)) - 1 }
}

/// Frame condition over the whole store: every key present before or after, except those for
/// which `exempt(key)` holds, is present on both sides with byte-identical value.
pub(crate) fn frame_except(before: &Snap, after: &Store, exempt: impl Fn(u64) -> bool) -> bool {
    let mut r = true;
    let mut i = 0;
    while i < CAP {
        if before.used[i] && !exempt(before.keys[i]) {
            // locate the key in the post-state and copy its value out (6 guarded copies)
            let k = before.keys[i];
            let mut found = false;
            let mut val = [0u8; heed::VMAX];
            let mut len = 0usize;
            let mut t = 0;
            while t < CAP {
                if after.used[t] && after.keys[t] == k {
                    found = true;
                    val = after.vals[t];
                    len = after.vlen[t];
                }
                t += 1;
            }
            // values of non-exempt entries are <= 32 bytes in every harness: compare them as two
            // masked 128-bit words instead of a byte loop
            if !found || len != before.vlen[i] || len > 32 {
                r = false;
            } else if (val16(&before.vals[i]) ^ val16(&val)) & mask16(len) != 0 {
                r = false;
            } else if len > 16 && (val16b(&before.vals[i]) ^ val16b(&val)) & mask16(len - 16) != 0 {
                r = false;
            }
        }
        if after.used[i] && !exempt(after.keys[i]) {
            let k = after.keys[i];
            let mut found = false;
            let mut t = 0;
            while t < CAP {
                if before.used[t] && before.keys[t] == k {
                    found = true;
                }
                t += 1;
            }
            if !found {
                r = false;
            }
        }
        i += 1;
    }
    r
}

pub(crate) fn key_index(k: u64) -> u16 {
    (k >> 48) as u16
}
pub(crate) fn key_kind(k: u64) -> u8 {
    (k >> 40) as u8
}
pub(crate) fn key_id(k: u64) -> u32 {
    (k >> 8) as u32
}

/// Fill slots 0..n (n constant) of an empty store with arbitrary distinct entries of the kinds
/// arroy writes (kind byte 0..=3, padding 0): any index (so neighbours of the index under test,
/// 0 and 65535 are among the solver's choices), any id, any value bytes of length <= `vmax`.
/// Each slot is independently present or absent.
pub(crate) fn sym_store(s: &mut Store, n: usize, vmax: usize) {
    let mut i = 0;
    while i < n {
        if kani::any() {
            let k: [u8; 8] = kani::any();
            kani::assume(k[2] <= 3 && k[7] == 0);
            let kk = u64::from_be_bytes(k);
            let mut j = 0;
            while j < i {
                kani::assume(!(s.used[j] && s.keys[j] == kk));
                j += 1;
            }
            let v: [u8; heed::VMAX] = kani::any();
            let len: usize = kani::any();
            kani::assume(len <= vmax && vmax <= 16);
            s.set_slot_sym(i, k, v, len);
        }
        i += 1;
    }
}

/// Bytes of the value stored under slot `i` equal `expect`.
pub(crate) fn slot_val_is(st: &Store, i: usize, expect: &[u8]) -> bool {
    let mut r = true;
    let mut s = 0;
    while s < CAP {
        if s == i {
            if st.vlen[s] != expect.len() {
                r = false;
            } else {
                let mut j = 0;
                while j < expect.len() {
                    if st.vals[s][j] != expect[j] {
                        r = false;
                    }
                    j += 1;
                }
            }
        }
        s += 1;
    }
    r
}

/// Like `sym_store` but every entry has an empty value (only the *keys* are arbitrary): used by
/// harnesses whose code under test decodes one record with concrete bytes (metadata) and only
/// looks at the keys of everything else.
pub(crate) fn sym_store_keys_only(s: &mut Store, n: usize) {
    let mut i = 0;
    while i < n {
        if kani::any() {
            let k: [u8; 8] = kani::any();
            kani::assume(k[2] <= 3 && k[7] == 0);
            let kk = u64::from_be_bytes(k);
            let mut j = 0;
            while j < i {
                kani::assume(!(s.used[j] && s.keys[j] == kk));
                j += 1;
            }
            s.set_slot(i, k, &[]);
        }
        i += 1;
    }
}

/// Stub for `CStr::from_bytes_until_nul`: a plain byte loop instead of core's word-at-a-time
/// memchr (which is intractable on symbolic bytes).  A buffer without any NUL is outside the
/// harnesses' state space (arroy always writes the terminator): assumed away.
pub(crate) fn stub_from_bytes_until_nul(
    bytes: &[u8],
) -> Result<&core::ffi::CStr, core::ffi::FromBytesUntilNulError> {
    let mut i = 0;
    while i < bytes.len() {
        if bytes[i] == 0 {
            return Ok(unsafe { core::ffi::CStr::from_bytes_with_nul_unchecked(&bytes[..=i]) });
        }
        i += 1;
    }
    kani::assume(false);
    loop {}
}

/// Stub for `CStr::to_str`: metric names are ASCII in every harness; UTF-8 validation skipped.
pub(crate) fn stub_cstr_to_str(c: &core::ffi::CStr) -> Result<&str, core::str::Utf8Error> {
    Ok(unsafe { core::str::from_utf8_unchecked(c.to_bytes()) })
}

/// Stub for `_mm_blendv_ps` (Kani 0.68 does not support `simd_select`): lane-wise per Intel's
/// definition -- the sign bit of each mask lane selects the lane of `b`, otherwise of `a`.
#[cfg(target_arch = "x86_64")]
pub(crate) unsafe fn stub_blendv_ps(
    a: core::arch::x86_64::__m128,
    b: core::arch::x86_64::__m128,
    mask: core::arch::x86_64::__m128,
) -> core::arch::x86_64::__m128 {
    let a: [u32; 4] = core::mem::transmute(a);
    let b: [u32; 4] = core::mem::transmute(b);
    let m: [u32; 4] = core::mem::transmute(mask);
    let r = [
        if m[0] >> 31 != 0 { b[0] } else { a[0] },
        if m[1] >> 31 != 0 { b[1] } else { a[1] },
        if m[2] >> 31 != 0 { b[2] } else { a[2] },
        if m[3] >> 31 != 0 { b[3] } else { a[3] },
    ];
    core::mem::transmute(r)
}

/// The value under slot `i` as (first 16 bytes, next 16 bytes, length) -- loop-free comparison
/// of values up to 32 bytes.
pub(crate) fn slot_words(st: &Store, i: usize) -> (u128, u128, usize) {
    let mut v = [0u8; heed::VMAX];
    let mut len = 0usize;
    let mut s = 0;
    while s < CAP {
        if s == i {
            v = st.vals[s];
            len = st.vlen[s];
        }
        s += 1;
    }
    (val16(&v) & mask16(len), if len > 16 { val16b(&v) & mask16(len - 16) } else { 0 }, len)
}

/// Expected bytes (<= 32, zero padded) as the same pair of words.
pub(crate) fn words_of(b: &[u8; 32]) -> (u128, u128) {
    let lo: [u8; 16] = [b[0], b[1], b[2], b[3], b[4], b[5], b[6], b[7], b[8], b[9], b[10], b[11], b[12], b[13], b[14], b[15]];
    let hi: [u8; 16] = [b[16], b[17], b[18], b[19], b[20], b[21], b[22], b[23], b[24], b[25], b[26], b[27], b[28], b[29], b[30], b[31]];
    (u128::from_le_bytes(lo), u128::from_le_bytes(hi))
}
