//! K-lemmas on the metric formulas (C04 (i), C11 (c), C20): comparisons, negation, min, abs are
//! decided bit-precisely; where a harness is about *ordering logic only*, `dot_product` is a
//! symmetric uninterpreted function (trusted axiom: IEEE multiplication commutes; the kernels'
//! own operand symmetry is C11's obligation).
use std::borrow::Cow;

use super::*;
use crate::internals::Side;
use crate::unaligned_vector::BinaryQuantized;
use crate::verif_util::*;

static mut DOT_SEEN: bool = false;
static mut DOT_A: usize = 0;
static mut DOT_B: usize = 0;
static mut DOT_R: f32 = 0.0;

/// dot(u, v): an arbitrary f32, the same for (u, v) and (v, u).
fn uf_dot(u: &UnalignedVector<f32>, v: &UnalignedVector<f32>) -> f32 {
    let (a, b) = (u.as_ptr() as usize, v.as_ptr() as usize);
    unsafe {
        if DOT_SEEN && ((a == DOT_A && b == DOT_B) || (a == DOT_B && b == DOT_A)) {
            return DOT_R;
        }
        let r: f32 = kani::any();
        DOT_SEEN = true;
        DOT_A = a;
        DOT_B = b;
        DOT_R = r;
        r
    }
}

fn check_routing<D: Distance>(v: &UnalignedVector<D::VectorCodec>, n: &UnalignedVector<D::VectorCodec>) {
    let leaf: Leaf<D> = Leaf { header: D::new_header(v), vector: Cow::Borrowed(v) };
    // the margin the writer routes with ...
    let m_w = D::margin_no_header(&leaf.vector, n);
    kani::assume(!m_w.is_nan() && m_w != 0.0);
    let side = D::side(n, &leaf, &mut AnyRng);
    // ... and the priorities the reader computes for a query equal to the stored vector
    let d: f32 = kani::any();
    kani::assume(d > 0.0);
    let m_q = D::margin_no_header(n, &leaf.vector);
    let pl = D::pq_distance(d, m_q, Side::Left);
    let pr = D::pq_distance(d, m_q, Side::Right);
    match side {
        Side::Left => assert!(pl > pr && pl > 0.0),
        Side::Right => assert!(pr > pl && pr > 0.0),
    }
    kani::cover!(matches!(side, Side::Left));
    kani::cover!(matches!(side, Side::Right));
}

macro_rules! routing_f32 {
    ($name:ident, $d:ty) => {
        /// A stored vector lies on the side of a non-degenerate plane to which a query equal to it
        /// is sent first, and that side's priority stays positive (so the argument iterates).
        #[kani::proof]
        #[kani::unwind(6)]
        #[kani::stub(alloc::fmt::format, stub_format)]
        #[kani::stub(crate::spaces::simple::dot_product, uf_dot)]
        fn $name() {
            let vb: [u8; 8] = kani::any();
            let nb: [u8; 8] = kani::any();
            let v = UnalignedVector::<f32>::from_bytes_unchecked(&vb);
            let n = UnalignedVector::<f32>::from_bytes_unchecked(&nb);
            check_routing::<$d>(v, n);
        }
    };
}
routing_f32!(routing_euclidean, Euclidean);
routing_f32!(routing_cosine, Cosine);
routing_f32!(routing_manhattan, Manhattan);
routing_f32!(routing_dot_product, DotProduct);

macro_rules! routing_bq {
    ($name:ident, $d:ty) => {
        #[kani::proof]
        #[kani::unwind(12)]
        #[kani::stub(alloc::fmt::format, stub_format)]
        fn $name() {
            let vb: [u8; 8] = kani::any();
            let nb: [u8; 8] = kani::any();
            let v = UnalignedVector::<BinaryQuantized>::from_bytes_unchecked(&vb);
            let n = UnalignedVector::<BinaryQuantized>::from_bytes_unchecked(&nb);
            check_routing::<$d>(v, n);
        }
    };
}
routing_bq!(routing_bq_euclidean, BinaryQuantizedEuclidean);
routing_bq!(routing_bq_cosine, BinaryQuantizedCosine);
routing_bq!(routing_bq_manhattan, BinaryQuantizedManhattan);

/// side / pq_distance never panic and take the random branch exactly on a zero or NaN margin,
/// for every f32 bit pattern (NaN, infinities, subnormals included).
#[kani::proof]
#[kani::unwind(6)]
#[kani::stub(alloc::fmt::format, stub_format)]
#[kani::stub(crate::spaces::simple::dot_product, uf_dot)]
fn side_degenerate_margins() {
    let vb: [u8; 8] = kani::any();
    let nb: [u8; 8] = kani::any();
    let v = UnalignedVector::<f32>::from_bytes_unchecked(&vb);
    let n = UnalignedVector::<f32>::from_bytes_unchecked(&nb);
    let leaf: Leaf<Euclidean> = Leaf { header: Euclidean::new_header(v), vector: Cow::Borrowed(v) };
    let m = Euclidean::margin_no_header(&leaf.vector, n);
    let side = Euclidean::side(n, &leaf, &mut AnyRng);
    if m > 0.0 {
        assert!(matches!(side, Side::Right));
    } else if m < 0.0 {
        assert!(matches!(side, Side::Left));
    }
    let d: f32 = kani::any();
    let p = Euclidean::pq_distance(d, m, Side::Left);
    let q = Euclidean::pq_distance(d, m, Side::Right);
    // min never invents a value: the priority is one of its inputs (or NaN only if both are)
    assert!(p.to_bits() == d.to_bits() || p.to_bits() == (-m).to_bits() || (p.is_nan() && d.is_nan() && m.is_nan()));
    assert!(q.to_bits() == d.to_bits() || q.to_bits() == m.to_bits() || (q.is_nan() && d.is_nan() && m.is_nan()));
    kani::cover!(m.is_nan());
    kani::cover!(m == 0.0);
}

/// normalized_distance of every metric never panics, for every f32 and every dimension >= 1;
/// Euclidean/Manhattan/quantised results are never negative for non-negative inputs; DotProduct
/// reports +dot (larger = nearer).
#[kani::proof]
#[kani::stub(alloc::fmt::format, stub_format)]
fn normalized_distance_total() {
    let d: f32 = kani::any();
    let dim: usize = kani::any();
    kani::assume(dim >= 1);
    let e = Euclidean::normalized_distance(d, dim);
    let m = Manhattan::normalized_distance(d, dim);
    let c = Cosine::normalized_distance(d, dim);
    let p = DotProduct::normalized_distance(d, dim);
    let be = BinaryQuantizedEuclidean::normalized_distance(d, dim);
    let bm = BinaryQuantizedManhattan::normalized_distance(d, dim);
    let bc = BinaryQuantizedCosine::normalized_distance(d, dim);
    if d >= 0.0 {
        assert!(e >= 0.0 && m >= 0.0 && be >= 0.0 && bm >= 0.0);
    }
    assert!(!m.is_nan() || d.is_nan());
    assert!(c.to_bits() == d.to_bits() && bc.to_bits() == d.to_bits());
    assert!(p.to_bits() == (-d).to_bits());
    kani::cover!(d.is_nan());
    kani::cover!(d == f32::INFINITY);
}

/// Manhattan: built_distance(p, p) = 0 and built_distance(p, q) = built_distance(q, p) exactly,
/// for all finite vectors (real code, dim 2).
#[kani::proof]
#[kani::unwind(6)]
#[kani::stub(alloc::fmt::format, stub_format)]
fn manhattan_self_zero_symmetric() {
    let pb: [u32; 2] = kani::any();
    let qb: [u32; 2] = kani::any();
    let p = [f32::from_bits(pb[0]), f32::from_bits(pb[1])];
    let q = [f32::from_bits(qb[0]), f32::from_bits(qb[1])];
    kani::assume(p[0].is_finite() && p[1].is_finite() && q[0].is_finite() && q[1].is_finite());
    let pv = UnalignedVector::<f32>::from_slice(&p);
    let qv = UnalignedVector::<f32>::from_slice(&q);
    let lp: Leaf<Manhattan> = Leaf { header: Manhattan::new_header(&pv), vector: pv };
    let lq: Leaf<Manhattan> = Leaf { header: Manhattan::new_header(&qv), vector: qv };
    assert!(Manhattan::built_distance(&lp, &lp) == 0.0);
    let a = Manhattan::built_distance(&lp, &lq);
    let b = Manhattan::built_distance(&lq, &lp);
    assert!(a.to_bits() == b.to_bits());
    assert!(a >= 0.0);
    kani::cover!(a > 0.0);
}

/// Cosine: for finite inputs the reported distance lies in [0, 1], and is 0 when the product of
/// the norms does not exceed epsilon.
#[kani::proof]
#[kani::unwind(6)]
#[kani::stub(alloc::fmt::format, stub_format)]
#[kani::stub(crate::spaces::simple::dot_product, uf_dot)]
fn cosine_range() {
    let vb: [u8; 8] = kani::any();
    let wb: [u8; 8] = kani::any();
    let v = UnalignedVector::<f32>::from_bytes_unchecked(&vb);
    let w = UnalignedVector::<f32>::from_bytes_unchecked(&wb);
    let pn: f32 = kani::any();
    let qn: f32 = kani::any();
    kani::assume(pn.is_finite() && qn.is_finite() && pn >= 0.0 && qn >= 0.0);
    let lp: Leaf<Cosine> = Leaf { header: bytemuck::cast::<f32, NodeHeaderCosine>(pn), vector: Cow::Borrowed(v) };
    let lq: Leaf<Cosine> = Leaf { header: bytemuck::cast::<f32, NodeHeaderCosine>(qn), vector: Cow::Borrowed(w) };
    let d = Cosine::built_distance(&lp, &lq);
    let dot = unsafe { DOT_R };
    if !dot.is_nan() {
        assert!(d >= 0.0 && d <= 1.0);
    }
    if pn * qn <= f32::EPSILON {
        assert!(d == 0.0);
    }
    kani::cover!(d == 1.0);
    kani::cover!(d == 0.0 && pn * qn > f32::EPSILON);
}


static mut EUC_R: f32 = 0.0;
fn uf_euclid(_u: &UnalignedVector<f32>, _v: &UnalignedVector<f32>) -> f32 {
    unsafe {
        EUC_R = kani::any();
        EUC_R
    }
}

/// DotProduct reports the inner product itself (negated internally, sign restored by
/// normalized_distance) and Euclidean the kernel's value, whatever the leaf headers contain
/// (the headers written by preprocess / stale headers must not leak into reported distances).
#[kani::proof]
#[kani::unwind(6)]
#[kani::stub(alloc::fmt::format, stub_format)]
#[kani::stub(crate::spaces::simple::dot_product, uf_dot)]
#[kani::stub(crate::spaces::simple::euclidean_distance, uf_euclid)]
fn built_distance_is_the_kernel_value() {
    let vb: [u8; 8] = kani::any();
    let wb: [u8; 8] = kani::any();
    let v = UnalignedVector::<f32>::from_bytes_unchecked(&vb);
    let w = UnalignedVector::<f32>::from_bytes_unchecked(&wb);
    let h1: [f32; 2] = kani::any();
    let h2: [f32; 2] = kani::any();
    let lp: Leaf<DotProduct> = Leaf { header: bytemuck::cast::<[f32; 2], NodeHeaderDotProduct>(h1), vector: Cow::Borrowed(v) };
    let lq: Leaf<DotProduct> = Leaf { header: bytemuck::cast::<[f32; 2], NodeHeaderDotProduct>(h2), vector: Cow::Borrowed(w) };
    let d = DotProduct::built_distance(&lp, &lq);
    let dot = unsafe { DOT_R };
    assert!(d.to_bits() == (-dot).to_bits());
    assert!(DotProduct::normalized_distance(d, 2).to_bits() == dot.to_bits() || dot.is_nan());
    let b1: f32 = kani::any();
    let b2: f32 = kani::any();
    let ep: Leaf<Euclidean> = Leaf { header: bytemuck::cast::<f32, NodeHeaderEuclidean>(b1), vector: Cow::Borrowed(v) };
    let eq: Leaf<Euclidean> = Leaf { header: bytemuck::cast::<f32, NodeHeaderEuclidean>(b2), vector: Cow::Borrowed(w) };
    let e = Euclidean::built_distance(&ep, &eq);
    assert!(e.to_bits() == unsafe { EUC_R }.to_bits());
    kani::cover!(h1[0] != 0.0 && h2[0] != 0.0);
}


/// Cosine::built_distance is its documented definition for every header and every dot product:
/// (1 - clamp(pq / (pn * qn), -1, 1)) / 2 when the *product* of the stored norms exceeds f32::EPSILON,
/// 0 otherwise (C11; a vector with a tiny norm is not a zero vector as long as the product is large).
#[kani::proof]
#[kani::unwind(6)]
#[kani::stub(alloc::fmt::format, stub_format)]
#[kani::stub(crate::spaces::simple::dot_product, uf_dot)]
fn cosine_built_distance_definition() {
    let vb: [u8; 8] = kani::any();
    let wb: [u8; 8] = kani::any();
    let v = UnalignedVector::<f32>::from_bytes_unchecked(&vb);
    let w = UnalignedVector::<f32>::from_bytes_unchecked(&wb);
    let pn: f32 = kani::any();
    let qn: f32 = kani::any();
    let lp: Leaf<Cosine> = Leaf { header: bytemuck::cast::<f32, NodeHeaderCosine>(pn), vector: Cow::Borrowed(v) };
    let lq: Leaf<Cosine> = Leaf { header: bytemuck::cast::<f32, NodeHeaderCosine>(qn), vector: Cow::Borrowed(w) };
    let d = Cosine::built_distance(&lp, &lq);
    let pq = unsafe { DOT_R };
    let pnqn = pn * qn;
    let want = if pnqn > f32::EPSILON { (1.0 - (pq / pnqn).clamp(-1.0, 1.0)) / 2.0 } else { 0.0 };
    assert!(d.to_bits() == want.to_bits() || (d.is_nan() && want.is_nan()));
    kani::cover!(pnqn > f32::EPSILON && pn <= f32::EPSILON);
    kani::cover!(pnqn <= f32::EPSILON);
}
