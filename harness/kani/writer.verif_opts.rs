//! K/W obligations on build options (C15) and the single-bucket shortcut (C01, C06, C07, C15).
use heed::{RwTxn, Store, CAP};

use super::*;
use crate::distance::Euclidean;
use crate::verif_util::*;

fn writer(index: u16, dim: usize) -> Writer<Euclidean> {
    Writer::<Euclidean>::new(heed::Database::model(), index, dim)
}

/// fit_in_descendant(n) <=> n <= split_after.unwrap_or(dimensions)
#[kani::proof]
#[kani::stub(alloc::fmt::format, stub_format)]
fn fit_in_descendant_contract() {
    let dim: usize = kani::any();
    let w = writer(kani::any(), dim);
    let mut opt = BuildOption::default();
    let sa: Option<usize> = if kani::any() { Some(kani::any()) } else { None };
    opt.split_after = sa;
    let n: u64 = kani::any();
    let cap = match sa {
        Some(s) => s as u64,
        None => dim as u64,
    };
    assert!(w.fit_in_descendant(&opt, n) == (n <= cap));
    kani::cover!(sa.is_none() && n == dim as u64);
    kani::cover!(sa == Some(1) && n == 2);
    core::mem::forget(opt);
}

/// target_n_trees: an explicit count is returned as is; the automatic choice is at least 1
/// whenever the index holds more items than one bucket may contain (dimension >= 1).
#[kani::proof]
#[kani::unwind(6)]
#[kani::stub(alloc::fmt::format, stub_format)]
fn target_n_trees_contract() {
    let mut opt = BuildOption::default();
    let n: Option<usize> = if kani::any() { Some(kani::any()) } else { None };
    opt.n_trees = n;
    let dim: u64 = kani::any();
    kani::assume(dim >= 1 && dim <= 4096);
    let bits: u64 = kani::any();
    let items = RoaringBitmap { bits };
    let nroots: usize = kani::any();
    kani::assume(nroots <= 16);
    let roots = [0u32, 1, 2, 3, 4, 5, 6, 7, 8, 9, 10, 11, 12, 13, 14, 15];
    let t = target_n_trees(&opt, dim, &items, &roots[..nroots]);
    match n {
        Some(n) => assert!(t == n as u64),
        None => {
            // more items than one bucket holds (default capacity = dimension)
            if items.len() > dim {
                assert!(t >= 1);
            }
        }
    }
    kani::cover!(n.is_none() && dim == 1 && items.len() == 5);
    kani::cover!(n.is_none() && dim == 2 && items.len() == 5 && nroots == 3);
    kani::cover!(n == Some(6) && nroots == 7);
    core::mem::forget(opt);
}

/// clear_db_and_create_a_single_leaf: afterwards the index has no tree key except (if there are
/// items) Tree(0) = bucket of exactly the item set; metadata = (D::name(), dim, items, roots = [0]
/// or []); version record written; other indexes and all item/updated keys untouched.
#[kani::proof]
#[kani::unwind(32)]
#[kani::stub(alloc::fmt::format, stub_format)]
fn single_leaf_shortcut_contract() {
    let mut store = Store::new();
    sym_store(&mut store, 3, 12);
    let before = snap(&store);
    let index: u16 = kani::any();
    let dim: usize = kani::any();
    kani::assume(dim >= 1 && dim <= 0xffff);
    let w = writer(index, dim);
    let bits: u64 = kani::any();
    let opt = BuildOption::default();
    let mut wtxn = RwTxn::on(&mut store);
    ok(w.clear_db_and_create_a_single_leaf(&mut wtxn, &opt, RoaringBitmap { bits }));
    let st = wtxn.store();
    // tree keys of this index: only Tree(0), and only if there are items
    let mut i = 0;
    while i < CAP {
        if st.used[i] && key_index(st.keys[i]) == index && key_kind(st.keys[i]) == 2 {
            assert!(bits != 0 && key_id(st.keys[i]) == 0);
        }
        i += 1;
    }
    let t0 = slot_of(st, index, 2, 0);
    if bits != 0 {
        assert!(t0.is_some());
        let b = bits.to_le_bytes();
        assert!(slot_val_is(st, t0.unwrap(), &[1, b[0], b[1], b[2], b[3], b[4], b[5], b[6], b[7]]));
    } else {
        assert!(t0.is_none());
    }
    // metadata record
    let m = slot_of(st, index, 0, 0);
    assert!(m.is_some());
    let d = (dim as u32).to_be_bytes();
    let b = bits.to_le_bytes();
    let z = 0u32.to_ne_bytes();
    let mut exp = [0u8; 30];
    let head = [b'e', b'u', b'c', b'l', b'i', b'd', b'e', b'a', b'n', 0, d[0], d[1], d[2], d[3], 0, 0, 0, 8,
        b[0], b[1], b[2], b[3], b[4], b[5], b[6], b[7]];
    let mut j = 0;
    while j < 26 {
        exp[j] = head[j];
        j += 1;
    }
    if bits != 0 {
        exp[26] = z[0];
        exp[27] = z[1];
        exp[28] = z[2];
        exp[29] = z[3];
        assert!(slot_val_is(st, m.unwrap(), &exp[..30]));
    } else {
        assert!(slot_val_is(st, m.unwrap(), &exp[..26]));
    }
    // version record exists (12 bytes)
    let v = slot_of(st, index, 0, 1);
    assert!(v.is_some());
    // frame: everything that is not (index, tree, *), (index, meta, 0|1) is untouched
    assert!(frame_except(&before, st, |k| key_index(k) == index
        && (key_kind(k) == 2 || (key_kind(k) == 0 && key_id(k) <= 1))));
    kani::cover!(bits == 0 && before.used[0] && key_index(before.keys[0]) == index && key_kind(before.keys[0]) == 2);
    kani::cover!(bits != 0 && before.used[0] && key_index(before.keys[0]) == index.wrapping_add(1) && key_kind(before.keys[0]) == 2);
    core::mem::forget(opt);
}
