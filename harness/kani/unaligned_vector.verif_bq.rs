//! K-lemmas on binary quantisation (C12): sign pattern in, Hamming geometry out.
use std::borrow::Cow;

use super::*;
use crate::distance::{
    BinaryQuantizedCosine, BinaryQuantizedEuclidean, BinaryQuantizedManhattan, Distance,
};
use crate::node::Leaf;
use crate::verif_util::*;

fn sign_clear(bits: u32) -> bool {
    bits >> 31 == 0
}

macro_rules! bq_pack {
    ($name:ident, $dim:expr, $unwind:expr) => {
        /// from_slice: bit (i mod 64) of word (i div 64) is set iff the sign bit of x_i is clear
        /// (so +0.0, +NaN, +inf count as positive, -0.0, -NaN as negative); zero padding up to a
        /// multiple of 64; `len`, `iter`, the scalar `to_vec` read the pattern back as +1/-1.
        #[kani::proof]
        #[kani::unwind($unwind)]
        #[kani::stub(alloc::fmt::format, stub_format)]
        #[kani::stub(core::core_arch::x86::sse41::_mm_blendv_ps, stub_blendv_ps)]
        fn $name() {
            const DIM: usize = $dim;
            const WORDS: usize = (DIM + 63) / 64;
            let xb: [u32; DIM] = kani::any();
            let mut x = [0f32; DIM];
            let mut i = 0;
            while i < DIM {
                x[i] = f32::from_bits(xb[i]);
                i += 1;
            }
            let v = UnalignedVector::<BinaryQuantized>::from_slice(&x);
            let bytes = v.as_bytes();
            assert!(bytes.len() == WORDS * 8);
            assert!(v.len() == WORDS * 64);
            let mut w = 0;
            while w < WORDS {
                let mut a = [0u8; 8];
                let mut j = 0;
                while j < 8 {
                    a[j] = bytes[w * 8 + j];
                    j += 1;
                }
                let word = u64::from_ne_bytes(a);
                let mut expect: u64 = 0;
                let mut b = 0;
                while b < 64 {
                    let idx = w * 64 + b;
                    if idx < DIM && sign_clear(xb[idx]) {
                        expect |= 1u64 << b;
                    }
                    b += 1;
                }
                assert!(word == expect);
                w += 1;
            }
            // read back through the iterator and to_vec (on x86-64 the SSE path is selected at compile time)
            let back = v.to_vec();
            assert!(back.len() == WORDS * 64);
            let mut it = v.iter();
            assert!(it.len() == WORDS * 64);
            let mut i = 0;
            while i < DIM {
                let e = if sign_clear(xb[i]) { 1.0f32 } else { -1.0f32 };
                assert!(it.next() == Some(e));
                assert!(back[i] == e);
                i += 1;
            }
            kani::cover!(xb[0] == 0x8000_0000); // -0.0
            kani::cover!(xb[DIM - 1] == 0x7fc0_0000); // +NaN
            core::mem::forget(back);
        }
    };
}
macro_rules! bq_from_vec {
    ($name:ident, $dim:expr) => {
        /// from_vec (the conversion path of prepare_changing_distance) stores the same words as
        /// from_slice: sign pattern at the declared dimension, zero padding (C12: "whichever
        /// conversion path is used").
        #[kani::proof]
        #[kani::unwind(70)]
        #[kani::stub(alloc::fmt::format, stub_format)]
        fn $name() {
            const DIM: usize = $dim;
            const WORDS: usize = (DIM + 63) / 64;
            let xb: [u32; DIM] = kani::any();
            let mut x: Vec<f32> = Vec::with_capacity(DIM);
            let mut i = 0;
            while i < DIM {
                x.push(f32::from_bits(xb[i]));
                i += 1;
            }
            let v = UnalignedVector::<BinaryQuantized>::from_vec(x);
            let bytes = v.as_bytes();
            assert!(bytes.len() == WORDS * 8);
            let mut w = 0;
            while w < WORDS {
                let mut a = [0u8; 8];
                let mut j = 0;
                while j < 8 {
                    a[j] = bytes[w * 8 + j];
                    j += 1;
                }
                let word = u64::from_ne_bytes(a);
                let mut expect: u64 = 0;
                let mut b = 0;
                while b < 64 {
                    let idx = w * 64 + b;
                    if idx < DIM && sign_clear(xb[idx]) {
                        expect |= 1u64 << b;
                    }
                    b += 1;
                }
                assert!(word == expect);
                w += 1;
            }
            kani::cover!(xb[0] == 0x8000_0000);
            core::mem::forget(v);
        }
    };
}
bq_from_vec!(bq_from_vec_dim3, 3);
bq_from_vec!(bq_from_vec_dim65, 65);

bq_pack!(bq_pack_dim1, 1, 70);
bq_pack!(bq_pack_dim5, 5, 70);
bq_pack!(bq_pack_dim64, 64, 70);
bq_pack!(bq_pack_dim65, 65, 70);
bq_pack!(bq_pack_dim3, 3, 70);
bq_pack!(bq_pack_dim63, 63, 70);
bq_pack!(bq_pack_dim70, 70, 72);

fn leaf_of<'a, D: Distance<VectorCodec = BinaryQuantized>>(
    v: &'a UnalignedVector<BinaryQuantized>,
) -> Leaf<'a, D> {
    Leaf { header: D::new_header(v), vector: Cow::Borrowed(v) }
}

/// Distances between two quantised vectors depend only on the number h of differing signs:
/// Euclidean 4h (normalised 4h/d), Manhattan 2h (2h/d); zero for equal patterns; symmetric.
#[kani::proof]
#[kani::unwind(70)]
#[kani::stub(alloc::fmt::format, stub_format)]
fn bq_hamming_geometry_dim5() {
    const DIM: usize = 5;
    let xa: [u32; DIM] = kani::any();
    let xb: [u32; DIM] = kani::any();
    let mut fa = [0f32; DIM];
    let mut fb = [0f32; DIM];
    let mut h = 0u32;
    let mut i = 0;
    while i < DIM {
        fa[i] = f32::from_bits(xa[i]);
        fb[i] = f32::from_bits(xb[i]);
        if sign_clear(xa[i]) != sign_clear(xb[i]) {
            h += 1;
        }
        i += 1;
    }
    let ca = UnalignedVector::<BinaryQuantized>::from_slice(&fa);
    let cb = UnalignedVector::<BinaryQuantized>::from_slice(&fb);
    let (ua, ub): (&UnalignedVector<BinaryQuantized>, &UnalignedVector<BinaryQuantized>) = (&ca, &cb);
    {
        let (la, lb) = (leaf_of::<BinaryQuantizedEuclidean>(ua), leaf_of::<BinaryQuantizedEuclidean>(ub));
        let d = BinaryQuantizedEuclidean::built_distance(&la, &lb);
        assert!(d == (4 * h) as f32);
        assert!(BinaryQuantizedEuclidean::built_distance(&lb, &la) == d);
        assert!(BinaryQuantizedEuclidean::normalized_distance(d, DIM) == (4 * h) as f32 / DIM as f32);
    }
    {
        let (la, lb) = (leaf_of::<BinaryQuantizedManhattan>(ua), leaf_of::<BinaryQuantizedManhattan>(ub));
        let d = BinaryQuantizedManhattan::built_distance(&la, &lb);
        assert!(d == (2 * h) as f32);
        assert!(BinaryQuantizedManhattan::built_distance(&lb, &la) == d);
        assert!(BinaryQuantizedManhattan::normalized_distance(d, DIM) == (2 * h) as f32 / DIM as f32);
    }
    kani::cover!(h == 0);
    kani::cover!(h == 5);
}

/// Quantised cosine: distance = h / 64 for dim <= 64 (the padded length), zero for equal
/// patterns, symmetric, strictly increasing in h.
#[kani::proof]
#[kani::unwind(70)]
#[kani::stub(alloc::fmt::format, stub_format)]
fn bq_cosine_geometry_dim5() {
    const DIM: usize = 5;
    let xa: [u32; DIM] = kani::any();
    let xb: [u32; DIM] = kani::any();
    let xc: [u32; DIM] = kani::any();
    let mut fa = [0f32; DIM];
    let mut fb = [0f32; DIM];
    let mut fc = [0f32; DIM];
    let (mut h, mut h2) = (0u32, 0u32);
    let mut i = 0;
    while i < DIM {
        fa[i] = f32::from_bits(xa[i]);
        fb[i] = f32::from_bits(xb[i]);
        fc[i] = f32::from_bits(xc[i]);
        if sign_clear(xa[i]) != sign_clear(xb[i]) {
            h += 1;
        }
        if sign_clear(xa[i]) != sign_clear(xc[i]) {
            h2 += 1;
        }
        i += 1;
    }
    let ca = UnalignedVector::<BinaryQuantized>::from_slice(&fa);
    let cb = UnalignedVector::<BinaryQuantized>::from_slice(&fb);
    let cc = UnalignedVector::<BinaryQuantized>::from_slice(&fc);
    let (la, lb, lc) = (
        leaf_of::<BinaryQuantizedCosine>(&ca),
        leaf_of::<BinaryQuantizedCosine>(&cb),
        leaf_of::<BinaryQuantizedCosine>(&cc),
    );
    let d = BinaryQuantizedCosine::built_distance(&la, &lb);
    let d2 = BinaryQuantizedCosine::built_distance(&la, &lc);
    assert!(d == h as f32 / 64.0);
    assert!(BinaryQuantizedCosine::built_distance(&lb, &la) == d);
    assert!(BinaryQuantizedCosine::normalized_distance(d, DIM) == d);
    if h < h2 {
        assert!(d < d2);
    }
    kani::cover!(h == 0 && d == 0.0);
    kani::cover!(h == 2 && h2 == 3);
}


/// Quantised cosine over a whole word: for any two stored 64-bit sign patterns the distance is
/// exactly h / 64 for every h in 0..=64 -- h = 32 (cos = 0) included -- symmetric, zero iff h = 0.
#[kani::proof]
#[kani::unwind(70)]
#[kani::stub(alloc::fmt::format, stub_format)]
fn bq_cosine_geometry_word() {
    let wa: u64 = kani::any();
    let wb: u64 = kani::any();
    let (ba, bb) = (wa.to_ne_bytes(), wb.to_ne_bytes());
    let ca = UnalignedVector::<BinaryQuantized>::from_bytes_unchecked(&ba);
    let cb = UnalignedVector::<BinaryQuantized>::from_bytes_unchecked(&bb);
    let mut h = 0u32;
    let mut i = 0;
    while i < 64 {
        if ((wa ^ wb) >> i) & 1 == 1 {
            h += 1;
        }
        i += 1;
    }
    let (la, lb) = (leaf_of::<BinaryQuantizedCosine>(ca), leaf_of::<BinaryQuantizedCosine>(cb));
    let d = BinaryQuantizedCosine::built_distance(&la, &lb);
    assert!(d == h as f32 / 64.0);
    assert!(BinaryQuantizedCosine::built_distance(&lb, &la) == d);
    kani::cover!(h == 32);
    kani::cover!(h == 64);
    kani::cover!(h == 0);
}
