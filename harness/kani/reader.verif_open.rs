//! R obligations on the reader (C06 open-time checks; C05 read API; C19/C03 rejected queries).
use heed::{RoTxn, Store, CAP};

use super::*;
use crate::distance::{
    BinaryQuantizedCosine, BinaryQuantizedEuclidean, BinaryQuantizedManhattan, Cosine, DotProduct,
    Euclidean, Manhattan,
};
use crate::verif_util::*;

const K_META: u8 = 0;
const K_UPD: u8 = 1;
const K_ITEM: u8 = 3;

/// Reference metadata encoder (DESIGN.md appendix A): name | 0 | dim_be | len_be | bitmap | roots(ne)
fn ref_metadata(name: &[u8], dim: u32, items: u64, root: u32, out: &mut [u8; heed::VMAX]) -> usize {
    let mut n = 0;
    let mut i = 0;
    while i < name.len() {
        out[n] = name[i];
        n += 1;
        i += 1;
    }
    out[n] = 0;
    n += 1;
    let d = dim.to_be_bytes();
    let l = 8u32.to_be_bytes();
    let b = items.to_le_bytes(); // the bit-set model's serialisation
    let r = root.to_ne_bytes();
    let mut i = 0;
    while i < 4 {
        out[n] = d[i];
        n += 1;
        i += 1;
    }
    let mut i = 0;
    while i < 4 {
        out[n] = l[i];
        n += 1;
        i += 1;
    }
    let mut i = 0;
    while i < 8 {
        out[n] = b[i];
        n += 1;
        i += 1;
    }
    let mut i = 0;
    while i < 4 {
        out[n] = r[i];
        n += 1;
        i += 1;
    }
    n
}

fn open_case<D: Distance>(stored: &'static [u8], same_metric: bool) {
    let mut store = Store::new();
    sym_store_keys_only(&mut store, 2);
    let index: u16 = kani::any();
    // the two arbitrary entries are anything but this index's metadata record
    kani::assume(slot_of(&store, index, K_META, 0).is_none());
    let has_meta: bool = kani::any();
    let dim: u32 = kani::any();
    let items: u64 = kani::any();
    let root: u32 = kani::any();
    if has_meta {
        let mut v = [0u8; heed::VMAX];
        let n = ref_metadata(stored, dim, items, root, &mut v);
        store.set_slot_sym(2, ref_key(index, K_META, 0), v, n);
    }
    let mut has_upd = false;
    let mut i = 0;
    while i < CAP {
        if store.used[i] && key_index(store.keys[i]) == index && key_kind(store.keys[i]) == K_UPD {
            has_upd = true;
        }
        i += 1;
    }
    let db: Database<D> = heed::Database::model();
    let rtxn = RoTxn::on(&store);
    match Reader::<D>::open(&rtxn, index, db) {
        Err(Error::MissingMetadata(i)) => {
            assert!(!has_meta && i == index);
        }
        Err(Error::UnmatchingDistance { expected, received }) => {
            assert!(has_meta && !same_metric);
            assert!(received == D::name());
            assert!(expected.len() == stored.len());
            core::mem::forget(expected);
        }
        Err(Error::NeedBuild(i)) => {
            assert!(has_meta && same_metric && has_upd && i == index);
        }
        Ok(r) => {
            assert!(has_meta && same_metric && !has_upd);
            assert!(r.index == index && r.dimensions == dim as usize);
            assert!(r.items.bits == items);
            assert!(r.roots.len() == 1);
            assert!(r.n_trees() == 1 && r.n_items() == items.count_ones() as u64);
            core::mem::forget(r);
        }
        Err(e) => {
            core::mem::forget(e);
            assert!(false);
        }
    }
    kani::cover!(has_meta && has_upd);
    kani::cover!(has_meta && !has_upd);
    kani::cover!(!has_meta);
}

macro_rules! open_h {
    ($name:ident, $d:ty, $stored:expr, $same:expr) => {
        #[kani::proof]
        #[kani::unwind(32)]
        #[kani::stub(alloc::fmt::format, stub_format)]
        #[kani::stub(core::ffi::CStr::from_bytes_until_nul, stub_from_bytes_until_nul)]
        #[kani::stub(core::ffi::CStr::to_str, stub_cstr_to_str)]
        fn $name() {
            open_case::<$d>($stored, $same);
        }
    };
}
// Reader<Euclidean> against every stored metric name (+ a foreign one)
open_h!(open_euclidean_on_euclidean, Euclidean, b"euclidean", true);
open_h!(open_euclidean_on_cosine, Euclidean, b"cosine", false);
open_h!(open_euclidean_on_manhattan, Euclidean, b"manhattan", false);
open_h!(open_euclidean_on_dot, Euclidean, b"dot-product", false);
open_h!(open_euclidean_on_bq_euclidean, Euclidean, b"binary quantized euclidean", false);
open_h!(open_euclidean_on_bq_cosine, Euclidean, b"binary quantized cosine", false);
open_h!(open_euclidean_on_bq_manhattan, Euclidean, b"binary quantized manhattan", false);
open_h!(open_euclidean_on_foreign, Euclidean, b"angular", false);
// every other reader metric against its own name (pins Distance::name()) and against euclidean
open_h!(open_cosine_on_cosine, Cosine, b"cosine", true);
open_h!(open_manhattan_on_manhattan, Manhattan, b"manhattan", true);
open_h!(open_dot_on_dot, DotProduct, b"dot-product", true);
open_h!(open_bqe_on_bqe, BinaryQuantizedEuclidean, b"binary quantized euclidean", true);
open_h!(open_bqc_on_bqc, BinaryQuantizedCosine, b"binary quantized cosine", true);
open_h!(open_bqm_on_bqm, BinaryQuantizedManhattan, b"binary quantized manhattan", true);
open_h!(open_cosine_on_euclidean, Cosine, b"euclidean", false);
open_h!(open_bqe_on_euclidean, BinaryQuantizedEuclidean, b"euclidean", false);

fn reader<D: Distance>(index: u16, dim: usize) -> Reader<'static, D> {
    Reader {
        database: heed::Database::model(),
        index,
        roots: crate::node::ItemIds::from_bytes(&[]),
        dimensions: dim,
        items: RoaringBitmap::new(),
        _marker: marker::PhantomData,
    }
}

/// Reader::item_vector / contains_item agree with the raw store (C05).
#[kani::proof]
#[kani::unwind(20)]
#[kani::stub(alloc::fmt::format, stub_format)]
fn reader_item_vector_contains() {
    let mut store = Store::new();
    sym_store(&mut store, 2, 8);
    let index: u16 = kani::any();
    let item: u32 = kani::any();
    kani::assume(slot_of(&store, index, K_ITEM, item).is_none());
    let present: bool = kani::any();
    let mut val: [u8; 13] = kani::any();
    val[0] = 0;
    if present {
        store.set_slot(2, ref_key(index, K_ITEM, item), &val);
    }
    let r = reader::<Euclidean>(index, 2);
    let rtxn = RoTxn::on(&store);
    assert!(ok(r.contains_item(&rtxn, item)) == present);
    match ok(r.item_vector(&rtxn, item)) {
        Some(got) => {
            assert!(present && got.len() == 2);
            assert!(got[0].to_bits() == u32::from_ne_bytes([val[5], val[6], val[7], val[8]]));
            assert!(got[1].to_bits() == u32::from_ne_bytes([val[9], val[10], val[11], val[12]]));
            core::mem::forget(got);
        }
        None => assert!(!present),
    }
    kani::cover!(present);
    kani::cover!(!present);
    core::mem::forget(r);
}

/// by_vector with a vector of the wrong length: the dimension error with both numbers (C19);
/// by_item on an id that is not stored: Ok(None), not an error (C03).
#[kani::proof]
#[kani::unwind(20)]
#[kani::stub(alloc::fmt::format, stub_format)]
fn query_rejections() {
    let mut store = Store::new();
    sym_store(&mut store, 3, 8);
    let index: u16 = kani::any();
    let dim: usize = kani::any();
    kani::assume(dim >= 1 && dim <= 4);
    let r = reader::<Euclidean>(index, dim);
    let rtxn = RoTxn::on(&store);
    let len: usize = kani::any();
    kani::assume(len <= 6 && len != dim);
    let buf: [f32; 6] = kani::any();
    let q = r.nns(kani::any());
    match q.by_vector(&rtxn, &buf[..len]) {
        Err(Error::InvalidVecDimension { expected, received }) => {
            assert!(expected == dim && received == len);
        }
        other => {
            core::mem::forget(other);
            assert!(false);
        }
    }
    let item: u32 = kani::any();
    kani::assume(slot_of(&store, index, K_ITEM, item).is_none());
    match q.by_item(&rtxn, item) {
        Ok(None) => {}
        other => {
            core::mem::forget(other);
            assert!(false);
        }
    }
    kani::cover!(len == 0);
    kani::cover!(store.used[0] && store.keys[0] == ref_key_u64(index, 2, item));
    core::mem::forget(r);
}


/// The query builder's setters store exactly what they are given: count, budget, oversampling,
/// and the candidate filter *whatever its content* (an empty filter is still a filter).
#[kani::proof]
#[kani::unwind(4)]
#[kani::stub(alloc::fmt::format, stub_format)]
fn query_builder_setters() {
    let r = reader::<Euclidean>(kani::any(), 2);
    let count: usize = kani::any();
    let mut q = r.nns(count);
    assert!(q.count == count && q.search_k.is_none() && q.oversampling.is_none() && q.candidates.is_none());
    let bits: u64 = kani::any();
    let bm = RoaringBitmap { bits };
    let k: usize = kani::any();
    let o: usize = kani::any();
    kani::assume(k != 0 && o != 0);
    q.search_k(NonZeroUsize::new(k).unwrap());
    q.oversampling(NonZeroUsize::new(o).unwrap());
    q.candidates(&bm);
    assert!(q.count == count);
    assert!(q.search_k.map(NonZeroUsize::get) == Some(k));
    assert!(q.oversampling.map(NonZeroUsize::get) == Some(o));
    match q.candidates {
        Some(c) => assert!(c.bits == bits),
        None => assert!(false),
    }
    kani::cover!(bits == 0);
    kani::cover!(bits != 0);
    core::mem::forget(r);
}
