//! K-lemmas on the value codecs (C16): encode = reference layout, decode(encode(x)) = x.
use heed::{BytesDecode, BytesEncode};

use super::*;
use crate::distance::{BinaryQuantizedCosine, Cosine, DotProduct, Euclidean};
use crate::metadata::{Metadata, MetadataCodec};
use crate::node_id::NodeMode;
use crate::verif_util::*;
use crate::version::{Version, VersionCodec};

/// split node = 2 | left(kind, id_be) | right(kind, id_be) | normal bytes
#[kani::proof]
#[kani::unwind(24)]
#[kani::stub(alloc::fmt::format, stub_format)]
fn split_codec_layout_roundtrip() {
    let l: u32 = kani::any();
    let r: u32 = kani::any();
    let lm = any_mode();
    let rm = any_mode();
    let nb: [u8; 8] = kani::any();
    let normal = ok(UnalignedVector::<f32>::from_bytes(&nb));
    let node: Node<Euclidean> = Node::SplitPlaneNormal(SplitPlaneNormal {
        left: NodeId { mode: lm, item: l },
        right: NodeId { mode: rm, item: r },
        normal,
    });
    let bytes = ok(NodeCodec::<Euclidean>::bytes_encode(&node));
    assert!(bytes.len() == 19);
    assert!(bytes[0] == 2 && bytes[1] == lm as u8 && bytes[6] == rm as u8);
    assert!(u32::from_be_bytes([bytes[2], bytes[3], bytes[4], bytes[5]]) == l);
    assert!(u32::from_be_bytes([bytes[7], bytes[8], bytes[9], bytes[10]]) == r);
    let mut i = 0;
    while i < 8 {
        assert!(bytes[11 + i] == nb[i]);
        i += 1;
    }
    match ok(NodeCodec::<Euclidean>::bytes_decode(&bytes)) {
        Node::SplitPlaneNormal(s) => {
            assert!(s.left.item == l && s.right.item == r && s.left.mode == lm && s.right.mode == rm);
            let vb = s.normal.as_bytes();
            assert!(vb.len() == 8);
            let mut i = 0;
            while i < 8 {
                assert!(vb[i] == nb[i]);
                i += 1;
            }
            core::mem::forget(s);
        }
        other => {
            core::mem::forget(other);
            assert!(false);
        }
    }
    kani::cover!(lm == NodeMode::Item && rm == NodeMode::Tree && l == u32::MAX);
    core::mem::forget(bytes);
    core::mem::forget(node);
}

/// NodeId::to_bytes / from_bytes: 5 bytes, kind then id big-endian.
#[kani::proof]
#[kani::unwind(8)]
#[kani::stub(alloc::fmt::format, stub_format)]
fn node_id_bytes() {
    let id = any_node_id();
    let b = id.to_bytes();
    assert!(b[0] == id.mode as u8 && u32::from_be_bytes([b[1], b[2], b[3], b[4]]) == id.item);
    let rest: [u8; 3] = kani::any();
    let buf = [b[0], b[1], b[2], b[3], b[4], rest[0], rest[1], rest[2]];
    let (d, tail) = NodeId::from_bytes(&buf);
    assert!(d == id && tail.len() == 3 && tail[0] == rest[0] && tail[2] == rest[2]);
    kani::cover!(id.mode == NodeMode::Item);
}

macro_rules! leaf_codec {
    ($name:ident, $d:ty, $hlen:expr) => {
        /// leaf = 0 | header (Pod bytes, native endian) | vector bytes verbatim
        #[kani::proof]
        #[kani::unwind(24)]
        #[kani::stub(alloc::fmt::format, stub_format)]
        fn $name() {
            let hb: [u8; $hlen] = kani::any();
            let vb: [u8; 8] = kani::any();
            let mut raw = [0u8; 1 + $hlen + 8];
            let mut i = 0;
            while i < $hlen {
                raw[1 + i] = hb[i];
                i += 1;
            }
            let mut i = 0;
            while i < 8 {
                raw[1 + $hlen + i] = vb[i];
                i += 1;
            }
            // decode the reference bytes, re-encode, compare
            let node = ok(NodeCodec::<$d>::bytes_decode(&raw));
            match &node {
                Node::Leaf(leaf) => {
                    let v = leaf.vector.as_bytes();
                    assert!(v.len() == 8);
                    let mut i = 0;
                    while i < 8 {
                        assert!(v[i] == vb[i]);
                        i += 1;
                    }
                    let h = bytemuck::bytes_of(&leaf.header);
                    assert!(h.len() == $hlen);
                    let mut i = 0;
                    while i < $hlen {
                        assert!(h[i] == hb[i]);
                        i += 1;
                    }
                }
                _ => assert!(false),
            }
            let enc = ok(NodeCodec::<$d>::bytes_encode(&node));
            assert!(enc.len() == raw.len());
            let mut i = 0;
            while i < raw.len() {
                assert!(enc[i] == raw[i]);
                i += 1;
            }
            kani::cover!(vb[0] == 0xff);
            core::mem::forget(enc);
            core::mem::forget(node);
        }
    };
}
leaf_codec!(leaf_codec_euclidean, Euclidean, 4);
leaf_codec!(leaf_codec_cosine, Cosine, 4);
leaf_codec!(leaf_codec_dot_product, DotProduct, 8);
leaf_codec!(leaf_codec_bq_cosine, BinaryQuantizedCosine, 4);

/// bucket = 1 | serialised bitmap (bit-set model: 8 LE bytes); round trip keeps the id set.
#[kani::proof]
#[kani::unwind(12)]
#[kani::stub(alloc::fmt::format, stub_format)]
fn bucket_codec_tag_roundtrip() {
    let bits: u64 = kani::any();
    let bm = RoaringBitmap { bits };
    let node: Node<Euclidean> = Node::Descendants(Descendants { descendants: Cow::Borrowed(&bm) });
    let enc = ok(NodeCodec::<Euclidean>::bytes_encode(&node));
    assert!(enc.len() == 9 && enc[0] == 1);
    match ok(NodeCodec::<Euclidean>::bytes_decode(&enc)) {
        Node::Descendants(d) => {
            assert!(d.descendants.bits == bits);
            core::mem::forget(d);
        }
        other => {
            core::mem::forget(other);
            assert!(false);
        }
    }
    kani::cover!(bits == 0);
    kani::cover!(bits == u64::MAX);
    core::mem::forget(enc);
}

/// version = major | minor | patch, u32 big-endian each.
#[kani::proof]
#[kani::unwind(14)]
#[kani::stub(alloc::fmt::format, stub_format)]
fn version_codec_layout() {
    let v = Version { major: kani::any(), minor: kani::any(), patch: kani::any() };
    let enc = ok(VersionCodec::bytes_encode(&v));
    assert!(enc.len() == 12);
    assert!(u32::from_be_bytes([enc[0], enc[1], enc[2], enc[3]]) == v.major);
    assert!(u32::from_be_bytes([enc[4], enc[5], enc[6], enc[7]]) == v.minor);
    assert!(u32::from_be_bytes([enc[8], enc[9], enc[10], enc[11]]) == v.patch);
    let d = ok(VersionCodec::bytes_decode(&enc));
    assert!(d.major == v.major && d.minor == v.minor && d.patch == v.patch);
    kani::cover!(v.major == 0 && v.minor == 6);
    core::mem::forget(enc);
}

/// metadata = name | 0 | dim_be | bitmap_len_be | bitmap | roots (native-endian u32s).
#[kani::proof]
#[kani::unwind(40)]
#[kani::stub(alloc::fmt::format, stub_format)]
#[kani::stub(core::ffi::CStr::from_bytes_until_nul, stub_from_bytes_until_nul)]
#[kani::stub(core::ffi::CStr::to_str, stub_cstr_to_str)]
fn metadata_codec_layout() {
    let dim: u32 = kani::any();
    let bits: u64 = kani::any();
    let roots: [u32; 2] = kani::any();
    let m = Metadata {
        dimensions: dim,
        items: RoaringBitmap { bits },
        roots: ItemIds::from_slice(&roots),
        distance: "cosine",
    };
    let enc = ok(MetadataCodec::bytes_encode(&m));
    assert!(enc.len() == 6 + 1 + 4 + 4 + 8 + 8);
    assert!(enc[0] == b'c' && enc[5] == b'e' && enc[6] == 0);
    assert!(u32::from_be_bytes([enc[7], enc[8], enc[9], enc[10]]) == dim);
    assert!(u32::from_be_bytes([enc[11], enc[12], enc[13], enc[14]]) == 8);
    assert!(u32::from_ne_bytes([enc[23], enc[24], enc[25], enc[26]]) == roots[0]);
    assert!(u32::from_ne_bytes([enc[27], enc[28], enc[29], enc[30]]) == roots[1]);
    let d = ok(MetadataCodec::bytes_decode(&enc));
    assert!(d.dimensions == dim && d.items.bits == bits && d.roots.len() == 2);
    assert!(d.distance.len() == 6);
    let mut it = d.roots.iter();
    assert!(it.next() == Some(roots[0]) && it.next() == Some(roots[1]) && it.next().is_none());
    kani::cover!(dim == 768);
    core::mem::forget(d);
}
