//! K-lemmas on the key algebra (C07, C16): exhaustive over (u16 index, kind, u32 id).
use heed::{BytesDecode, BytesEncode};

use super::{Key, KeyCodec, Prefix, PrefixCodec};
use crate::node_id::{NodeId, NodeMode};
use crate::verif_util::*;

fn be64(b: &[u8]) -> u64 {
    let mut a = [0u8; 8];
    let mut i = 0;
    while i < 8 {
        a[i] = b[i];
        i += 1;
    }
    u64::from_be_bytes(a)
}

/// encode = reference layout [index_be:2][kind:1][id_be:4][0]; decode(encode(k)) = k;
/// bytewise order of two keys = (index, kind, id) order.
#[kani::proof]
#[kani::unwind(10)]
#[kani::stub(alloc::fmt::format, stub_format)]
fn key_layout_roundtrip_order() {
    let (i1, i2): (u16, u16) = (kani::any(), kani::any());
    let (m1, m2) = (any_mode(), any_mode());
    let (n1, n2): (u32, u32) = (kani::any(), kani::any());
    let k1 = Key::new(i1, NodeId { mode: m1, item: n1 });
    let k2 = Key::new(i2, NodeId { mode: m2, item: n2 });
    let b1 = ok(KeyCodec::bytes_encode(&k1));
    let b2 = ok(KeyCodec::bytes_encode(&k2));
    assert!(b1.len() == 8 && b2.len() == 8);
    let r1 = ref_key(i1, m1 as u8, n1);
    let mut i = 0;
    while i < 8 {
        assert!(b1[i] == r1[i]);
        i += 1;
    }
    let o_bytes = be64(&b1).cmp(&be64(&b2));
    let o_log = (i1, m1 as u8, n1).cmp(&(i2, m2 as u8, n2));
    assert!(o_bytes == o_log);
    let d = ok(KeyCodec::bytes_decode(&r1));
    assert!(d.index == i1 && d.node.mode == m1 && d.node.item == n1);
    kani::cover!(i1 == 65535 && n1 == u32::MAX && o_bytes == core::cmp::Ordering::Greater);
    core::mem::forget(b1);
    core::mem::forget(b2);
}

/// The numeric values of the kinds: metadata 0 < updated 1 < tree 2 < item 3 (DB-breaking).
#[kani::proof]
#[kani::stub(alloc::fmt::format, stub_format)]
fn kind_discriminants() {
    assert!(NodeMode::Metadata as u8 == 0);
    assert!(NodeMode::Updated as u8 == 1);
    assert!(NodeMode::Tree as u8 == 2);
    assert!(NodeMode::Item as u8 == 3);
    let v: u8 = kani::any();
    match NodeMode::try_from(v) {
        Ok(m) => {
            assert!(v <= 3 && m as u8 == v);
        }
        Err(e) => {
            core::mem::forget(e);
            assert!(v > 3);
        }
    }
    kani::cover!(v == 3);
}

/// Named key constructors carry the index and the documented (kind, id).
#[kani::proof]
#[kani::stub(alloc::fmt::format, stub_format)]
fn key_constructors() {
    let i: u16 = kani::any();
    let n: u32 = kani::any();
    let k = Key::metadata(i);
    assert!(k.index == i && k.node.mode == NodeMode::Metadata && k.node.item == 0);
    let k = Key::version(i);
    assert!(k.index == i && k.node.mode == NodeMode::Metadata && k.node.item == 1);
    let k = Key::updated(i, n);
    assert!(k.index == i && k.node.mode == NodeMode::Updated && k.node.item == n);
    let k = Key::item(i, n);
    assert!(k.index == i && k.node.mode == NodeMode::Item && k.node.item == n);
    let k = Key::tree(i, n);
    assert!(k.index == i && k.node.mode == NodeMode::Tree && k.node.item == n);
    kani::cover!(i == 7 && n == 9);
}

fn any_prefix(i: u16) -> (Prefix, Option<u8>) {
    match kani::any::<u8>() % 4 {
        0 => (Prefix::all(i), None),
        1 => (Prefix::item(i), Some(3)),
        2 => (Prefix::tree(i), Some(2)),
        _ => (Prefix::updated(i), Some(1)),
    }
}

/// Prefix::{all,item,tree,updated}(i) is a byte prefix of KeyCodec(k) iff k.index == i (and the
/// kind matches): scans and deletes scoped by a prefix can never leave the index (C07).
#[kani::proof]
#[kani::unwind(10)]
#[kani::stub(alloc::fmt::format, stub_format)]
fn prefix_scopes_exactly_one_index() {
    let i: u16 = kani::any();
    let (p, kind) = any_prefix(i);
    let pb = ok(PrefixCodec::bytes_encode(&p));
    let j: u16 = kani::any();
    let m = any_mode();
    let n: u32 = kani::any();
    let key = Key::new(j, NodeId { mode: m, item: n });
    let kb = ok(KeyCodec::bytes_encode(&key));
    assert!(pb.len() == if kind.is_some() { 3 } else { 2 });
    let mut is_prefix = pb.len() <= kb.len();
    let mut t = 0;
    while t < 3 {
        if t < pb.len() && pb[t] != kb[t] {
            is_prefix = false;
        }
        t += 1;
    }
    let expected = j == i && kind.map_or(true, |k| k == m as u8);
    assert!(is_prefix == expected);
    kani::cover!(is_prefix && kind == Some(2));
    kani::cover!(!is_prefix && j == i);
    core::mem::forget(pb);
    core::mem::forget(kb);
}

/// The range Tree(i,0)..=Tree(i,u32::MAX) used by the single-bucket shortcut contains exactly
/// the tree keys of index i.
#[kani::proof]
#[kani::unwind(10)]
#[kani::stub(alloc::fmt::format, stub_format)]
fn tree_range_is_exactly_the_tree_keys() {
    let i: u16 = kani::any();
    let lo = be64(&ok(KeyCodec::bytes_encode(&Key::tree(i, 0))));
    let hi = be64(&ok(KeyCodec::bytes_encode(&Key::tree(i, u32::MAX))));
    let j: u16 = kani::any();
    let m = any_mode();
    let n: u32 = kani::any();
    let k = be64(&ok(KeyCodec::bytes_encode(&Key::new(j, NodeId { mode: m, item: n }))));
    let inside = lo <= k && k <= hi;
    assert!(inside == (j == i && m == NodeMode::Tree));
    kani::cover!(inside && n == u32::MAX);
}
