//! W/R obligations on the item store (C05, C06, C07, C19): one API call from an arbitrary
//! bounded pre-state; the post-state is read from the raw model store.
use heed::{RoTxn, RwTxn, Store, CAP};

use super::*;
use crate::distance::{BinaryQuantizedEuclidean, Cosine, DotProduct, Euclidean, Manhattan};
use crate::verif_util::*;

const K_META: u8 = 0;
const K_UPD: u8 = 1;
const K_TREE: u8 = 2;
const K_ITEM: u8 = 3;

fn writer<D: Distance>(index: u16, dim: usize) -> Writer<D> {
    let db: Database<D> = heed::Database::model();
    Writer::<D>::new(db, index, dim)
}

fn f2(bits: [u32; 2]) -> [f32; 2] {
    [f32::from_bits(bits[0]), f32::from_bits(bits[1])]
}

/// Post-condition shared by add_item / successful append_item, for a 4-byte-zero-header metric.
fn check_added(before: &Snap, st: &Store, index: u16, item: u32, header: &[u8], vbytes: &[u8]) {
    let it = slot_of(st, index, K_ITEM, item);
    assert!(it.is_some());
    let mut expect = [0u8; 32];
    let mut n = 1; // tag 0 = leaf
    let mut j = 0;
    while j < header.len() {
        expect[n] = header[j];
        n += 1;
        j += 1;
    }
    let mut j = 0;
    while j < vbytes.len() {
        expect[n] = vbytes[j];
        n += 1;
        j += 1;
    }
    assert!(slot_val_is(st, it.unwrap(), &expect[..n]));
    let up = slot_of(st, index, K_UPD, item);
    assert!(up.is_some());
    assert!(slot_val_is(st, up.unwrap(), &[]));
    let ki = ref_key_u64(index, K_ITEM, item);
    let ku = ref_key_u64(index, K_UPD, item);
    assert!(frame_except(before, st, |k| k == ki || k == ku));
}

fn vbytes2(bits: [u32; 2]) -> [u8; 8] {
    let a = bits[0].to_ne_bytes();
    let b = bits[1].to_ne_bytes();
    [a[0], a[1], a[2], a[3], b[0], b[1], b[2], b[3]]
}

macro_rules! add_item_f32 {
    ($name:ident, $d:ty, $hdr:expr) => {
        /// add_item: leaf bytes = tag | header | the input's bytes verbatim (every f32 bit pattern),
        /// updated mark written, every other entry of the store byte-identical.
        #[kani::proof]
        #[kani::unwind(20)]
        #[kani::stub(alloc::fmt::format, stub_format)]
        fn $name() {
            let mut store = Store::new();
            sym_store(&mut store, 3, 16);
            let before = snap(&store);
            let index: u16 = kani::any();
            let item: u32 = kani::any();
            let bits: [u32; 2] = kani::any();
            let v = f2(bits);
            let w = writer::<$d>(index, 2);
            let mut wtxn = RwTxn::on(&mut store);
            ok(w.add_item(&mut wtxn, item, &v));
            let st = wtxn.store();
            check_added(&before, st, index, item, &$hdr, &vbytes2(bits));
            kani::cover!(before.used[0] && key_index(before.keys[0]) == index.wrapping_add(1));
            kani::cover!(before.used[1] && before.keys[1] == ref_key_u64(index, K_ITEM, item));
        }
    };
}
add_item_f32!(add_item_euclidean, Euclidean, [0u8; 4]);
add_item_f32!(add_item_manhattan, Manhattan, [0u8; 4]);
add_item_f32!(add_item_dot_product, DotProduct, [0u8; 8]);

/// add_item with a quantised metric: the stored vector is the sign pattern (bit i = sign bit of
/// x_i clear), zero padded to 64 bits; header bias = 0.
#[kani::proof]
#[kani::unwind(70)]
#[kani::stub(alloc::fmt::format, stub_format)]
fn add_item_bq_euclidean() {
    let mut store = Store::new();
    sym_store(&mut store, 2, 16);
    let before = snap(&store);
    let index: u16 = kani::any();
    let item: u32 = kani::any();
    let bits: [u32; 3] = kani::any();
    let v = [f32::from_bits(bits[0]), f32::from_bits(bits[1]), f32::from_bits(bits[2])];
    let w = writer::<BinaryQuantizedEuclidean>(index, 3);
    let mut wtxn = RwTxn::on(&mut store);
    ok(w.add_item(&mut wtxn, item, &v));
    let st = wtxn.store();
    let mut word: u64 = 0;
    let mut i = 0;
    while i < 3 {
        if bits[i] >> 31 == 0 {
            word |= 1 << i;
        }
        i += 1;
    }
    check_added(&before, st, index, item, &[0u8; 4], &word.to_ne_bytes());
    kani::cover!(word == 0b101);
}

/// add_item / append_item with a vector of the wrong length: the dimension error with both
/// numbers, and the store is byte-identical (C19).
#[kani::proof]
#[kani::unwind(20)]
#[kani::stub(alloc::fmt::format, stub_format)]
fn add_append_wrong_length_rejected() {
    let mut store = Store::new();
    sym_store(&mut store, 3, 16);
    let before = snap(&store);
    let index: u16 = kani::any();
    let item: u32 = kani::any();
    let dim: usize = kani::any();
    kani::assume(dim >= 1 && dim <= 4);
    let len: usize = kani::any();
    kani::assume(len <= 6 && len != dim);
    let buf: [f32; 6] = kani::any();
    let w = writer::<Euclidean>(index, dim);
    let mut wtxn = RwTxn::on(&mut store);
    let r = if kani::any() {
        w.add_item(&mut wtxn, item, &buf[..len])
    } else {
        w.append_item(&mut wtxn, item, &buf[..len])
    };
    match r {
        Err(Error::InvalidVecDimension { expected, received }) => {
            assert!(expected == dim && received == len);
        }
        other => {
            core::mem::forget(other);
            assert!(false);
        }
    }
    let st = wtxn.store();
    assert!(frame_except(&before, st, |_| false));
    assert!(st.writes == 0);
    kani::cover!(len == 0);
    kani::cover!(len == 6 && dim == 4);
}

/// The same rejection under a quantised metric: the error states the number of values the caller
/// passed, not the padded width of their quantised encoding (C19).
#[kani::proof]
#[kani::unwind(20)]
#[kani::stub(alloc::fmt::format, stub_format)]
fn add_append_wrong_length_rejected_bq() {
    let mut store = Store::new();
    sym_store(&mut store, 1, 16);
    let before = snap(&store);
    let index: u16 = kani::any();
    let item: u32 = kani::any();
    // concrete lengths keep the quantiser's loops (reached only by a wrong implementation) small
    let dim: usize = 3;
    let len: usize = 5;
    let buf: [f32; 6] = kani::any();
    let w = writer::<BinaryQuantizedEuclidean>(index, dim);
    let mut wtxn = RwTxn::on(&mut store);
    let r = if kani::any() {
        w.add_item(&mut wtxn, item, &buf[..len])
    } else {
        w.append_item(&mut wtxn, item, &buf[..len])
    };
    match r {
        Err(Error::InvalidVecDimension { expected, received }) => {
            assert!(expected == dim && received == len);
        }
        other => {
            core::mem::forget(other);
            assert!(false);
        }
    }
    let st = wtxn.store();
    assert!(frame_except(&before, st, |_| false));
    assert!(st.writes == 0);
    kani::cover!(index == 65535);
    kani::cover!(item == u32::MAX);
}

/// append_item: succeeds iff the new item key sorts after every key of the whole database (any
/// index), and then behaves exactly like add_item; otherwise InvalidItemAppend and no change.
#[kani::proof]
#[kani::unwind(20)]
#[kani::stub(alloc::fmt::format, stub_format)]
fn append_item_contract() {
    let mut store = Store::new();
    sym_store(&mut store, 3, 16);
    let before = snap(&store);
    let index: u16 = kani::any();
    let item: u32 = kani::any();
    let bits: [u32; 2] = kani::any();
    let v = f2(bits);
    let w = writer::<Euclidean>(index, 2);
    let newk = ref_key_u64(index, K_ITEM, item);
    let mut after_all = true;
    let mut i = 0;
    while i < CAP {
        if before.used[i] && before.keys[i] >= newk {
            after_all = false;
        }
        i += 1;
    }
    let mut wtxn = RwTxn::on(&mut store);
    let r = w.append_item(&mut wtxn, item, &v);
    let st = wtxn.store();
    match r {
        Ok(()) => {
            assert!(after_all);
            check_added(&before, st, index, item, &[0u8; 4], &vbytes2(bits));
        }
        Err(Error::InvalidItemAppend) => {
            assert!(!after_all);
            assert!(frame_except(&before, st, |_| false));
        }
        Err(e) => {
            core::mem::forget(e);
            assert!(false);
        }
    }
    kani::cover!(after_all && before.used[0]);
    kani::cover!(!after_all && before.used[0] && key_index(before.keys[0]) > index);
    kani::cover!(!after_all && before.used[0] && before.keys[0] == newk);
}

/// del_item: true iff the item key existed; then the key is gone and the updated mark is
/// written; an absent id changes nothing at all (C05, C06, C19).
#[kani::proof]
#[kani::unwind(20)]
#[kani::stub(alloc::fmt::format, stub_format)]
fn del_item_contract() {
    let mut store = Store::new();
    sym_store(&mut store, 4, 16);
    let before = snap(&store);
    let index: u16 = kani::any();
    let item: u32 = kani::any();
    let w = writer::<Euclidean>(index, 2);
    let ki = ref_key_u64(index, K_ITEM, item);
    let ku = ref_key_u64(index, K_UPD, item);
    let existed = slot_of(&store, index, K_ITEM, item).is_some();
    let mut wtxn = RwTxn::on(&mut store);
    let r = ok(w.del_item(&mut wtxn, item));
    let st = wtxn.store();
    assert!(r == existed);
    if existed {
        assert!(slot_of(st, index, K_ITEM, item).is_none());
        let up = slot_of(st, index, K_UPD, item);
        assert!(up.is_some() && slot_val_is(st, up.unwrap(), &[]));
        assert!(frame_except(&before, st, |k| k == ki || k == ku));
    } else {
        assert!(frame_except(&before, st, |_| false));
        assert!(st.writes == 0);
    }
    kani::cover!(existed);
    kani::cover!(!existed && before.used[0] && before.keys[0] == ref_key_u64(index, K_TREE, item));
}

/// clear: every entry of the writer's index is removed, every entry of any other index is
/// byte-identical (C05, C06, C07).
#[kani::proof]
#[kani::unwind(9)]
#[kani::stub(alloc::fmt::format, stub_format)]
fn clear_contract() {
    let mut store = Store::new();
    sym_store(&mut store, 5, 16);
    let before = snap(&store);
    let index: u16 = kani::any();
    let w = writer::<Euclidean>(index, 2);
    let mut wtxn = RwTxn::on(&mut store);
    ok(w.clear(&mut wtxn));
    let st = wtxn.store();
    let mut i = 0;
    while i < CAP {
        assert!(!(st.used[i] && key_index(st.keys[i]) == index));
        i += 1;
    }
    assert!(frame_except(&before, st, |k| key_index(k) == index));
    kani::cover!(before.used[0] && before.used[1] && key_index(before.keys[0]) == index
        && key_index(before.keys[1]) == index.wrapping_sub(1));
    kani::cover!(index == 65535 && before.used[0] && key_index(before.keys[0]) == 65535);
}

/// need_build <=> an updated mark of this index exists or the metadata record is missing (C06).
#[kani::proof]
#[kani::unwind(20)]
#[kani::stub(alloc::fmt::format, stub_format)]
fn need_build_contract() {
    let mut store = Store::new();
    sym_store(&mut store, 4, 16);
    let index: u16 = kani::any();
    let w = writer::<Euclidean>(index, 2);
    let rtxn = RoTxn::on(&store);
    let nb = ok(w.need_build(&rtxn));
    let mut has_upd = false;
    let mut has_meta = false;
    let mut i = 0;
    while i < CAP {
        if store.used[i] && key_index(store.keys[i]) == index {
            if key_kind(store.keys[i]) == K_UPD {
                has_upd = true;
            }
            if key_kind(store.keys[i]) == K_META && key_id(store.keys[i]) == 0 {
                has_meta = true;
            }
        }
        i += 1;
    }
    assert!(nb == (has_upd || !has_meta));
    kani::cover!(!nb);
    kani::cover!(nb && has_meta);
    kani::cover!(has_upd && key_id(store.keys[0]) == u32::MAX && store.used[0] && key_kind(store.keys[0]) == K_UPD && key_index(store.keys[0]) == index);
}

/// contains_item <=> the item key of this index exists (C05); tree/updated keys with the same
/// id and items of other indexes do not count.
#[kani::proof]
#[kani::unwind(20)]
#[kani::stub(alloc::fmt::format, stub_format)]
fn contains_item_contract() {
    let mut store = Store::new();
    sym_store(&mut store, 4, 16);
    let index: u16 = kani::any();
    let item: u32 = kani::any();
    let w = writer::<Euclidean>(index, 2);
    let rtxn = RoTxn::on(&store);
    let c = ok(w.contains_item(&rtxn, item));
    assert!(c == slot_of(&store, index, K_ITEM, item).is_some());
    kani::cover!(c);
    kani::cover!(!c && store.used[0] && store.keys[0] == ref_key_u64(index.wrapping_add(1), K_ITEM, item));
}

/// item_vector returns the stored vector bytes bit-for-bit, truncated to the declared dimension;
/// None when the item key is absent (C05).
#[kani::proof]
#[kani::unwind(20)]
#[kani::stub(alloc::fmt::format, stub_format)]
fn item_vector_contract() {
    let mut store = Store::new();
    sym_store(&mut store, 2, 16);
    let index: u16 = kani::any();
    let item: u32 = kani::any();
    kani::assume(slot_of(&store, index, K_ITEM, item).is_none());
    let present: bool = kani::any();
    let mut val: [u8; 13] = kani::any();
    val[0] = 0;
    if present {
        store.set_slot(2, ref_key(index, K_ITEM, item), &val);
    }
    let w = writer::<Euclidean>(index, 2);
    let rtxn = RoTxn::on(&store);
    match ok(w.item_vector(&rtxn, item)) {
        Some(got) => {
            assert!(present);
            assert!(got.len() == 2);
            assert!(got[0].to_bits() == u32::from_ne_bytes([val[5], val[6], val[7], val[8]]));
            assert!(got[1].to_bits() == u32::from_ne_bytes([val[9], val[10], val[11], val[12]]));
            core::mem::forget(got);
        }
        None => assert!(!present),
    }
    kani::cover!(present);
    kani::cover!(!present);
}

/// No item key of `index` among the symbolic neighbours (so that the slot set next is the only one).
fn assume_no_item_of(store: &Store, index: u16) {
    let mut i = 0;
    while i < CAP {
        kani::assume(!(store.used[i] && key_index(store.keys[i]) == index && key_kind(store.keys[i]) == K_ITEM));
        i += 1;
    }
}

/// Writer::iter yields the stored item once, with the stored vector bit-for-bit at the declared
/// dimension, and nothing of the neighbouring indexes (C05, C07).
#[kani::proof]
#[kani::unwind(20)]
#[kani::stub(alloc::fmt::format, stub_format)]
fn iter_yields_stored_vector_euclidean() {
    let mut store = Store::new();
    sym_store(&mut store, 2, 16);
    let index: u16 = kani::any();
    let item: u32 = kani::any();
    assume_no_item_of(&store, index);
    let present: bool = kani::any();
    let mut val: [u8; 13] = kani::any();
    val[0] = 0;
    if present {
        store.set_slot(2, ref_key(index, K_ITEM, item), &val);
    }
    let w = writer::<Euclidean>(index, 2);
    let rtxn = RoTxn::on(&store);
    let mut it = ok(w.iter(&rtxn));
    match it.next() {
        Some(r) => {
            let (id, got) = ok(r);
            assert!(present && id == item);
            assert!(got.len() == 2);
            assert!(got[0].to_bits() == u32::from_ne_bytes([val[5], val[6], val[7], val[8]]));
            assert!(got[1].to_bits() == u32::from_ne_bytes([val[9], val[10], val[11], val[12]]));
            core::mem::forget(got);
        }
        None => assert!(!present),
    }
    core::mem::forget(it);
    kani::cover!(present);
    kani::cover!(!present);
}

/// Same for a quantised metric: the sign pattern at the declared dimension (3), not at the
/// padded width (C05, C12).  PARKED (not registered): no CBMC verdict in 900 s even over a concrete
/// store (decode + 64-lane `to_vec` + Vec growth); the clause is decided by the mirsym obligation
/// `item_iteration` instead.
#[kani::proof]
#[kani::unwind(70)]
#[kani::stub(alloc::fmt::format, stub_format)]
#[kani::stub(core::core_arch::x86::sse41::_mm_blendv_ps, stub_blendv_ps)]
fn iter_yields_stored_vector_bq() {
    // concrete store around the leaf: the neighbour/frame part is iter_yields_stored_vector_euclidean's
    let mut store = Store::new();
    let index: u16 = 7;
    let item: u32 = kani::any();
    let word: u64 = kani::any();
    kani::assume(word >> 3 == 0);
    let mut val = [0u8; 13];
    let wb = word.to_ne_bytes();
    let mut i = 0;
    while i < 8 {
        val[5 + i] = wb[i];
        i += 1;
    }
    store.set_slot(2, ref_key(index, K_ITEM, item), &val);
    let w = writer::<BinaryQuantizedEuclidean>(index, 3);
    let rtxn = RoTxn::on(&store);
    let mut it = ok(w.iter(&rtxn));
    match it.next() {
        Some(r) => {
            let (id, got) = ok(r);
            assert!(id == item);
            assert!(got.len() == 3);
            let mut i = 0;
            while i < 3 {
                assert!(got[i] == if (word >> i) & 1 == 1 { 1.0 } else { -1.0 });
                i += 1;
            }
            core::mem::forget(got);
        }
        None => assert!(false),
    }
    core::mem::forget(it);
    kani::cover!(word == 0b101);
}

/// reset_and_retrieve_updated_items removes exactly this index's updated marks, returns their
/// ids, and leaves everything else byte-identical (C06, C07).
#[kani::proof]
#[kani::unwind(8)]
#[kani::stub(alloc::fmt::format, stub_format)]
fn reset_updated_contract() {
    let mut store = Store::new();
    sym_store(&mut store, 4, 16);
    let before = snap(&store);
    let index: u16 = kani::any();
    let mut i = 0;
    // ids of this index's marks must fit the bit-set model's universe
    while i < CAP {
        if before.used[i] && key_index(before.keys[i]) == index && key_kind(before.keys[i]) == K_UPD {
            kani::assume(key_id(before.keys[i]) < 64);
        }
        i += 1;
    }
    let w = writer::<Euclidean>(index, 2);
    let mut wtxn = RwTxn::on(&mut store);
    let opt = BuildOption::default();
    let got = ok(w.reset_and_retrieve_updated_items(&mut wtxn, &opt));
    let st = wtxn.store();
    let mut expect: u64 = 0;
    let mut i = 0;
    while i < CAP {
        if before.used[i] && key_index(before.keys[i]) == index && key_kind(before.keys[i]) == K_UPD {
            expect |= 1u64 << key_id(before.keys[i]);
        }
        assert!(!(st.used[i] && key_index(st.keys[i]) == index && key_kind(st.keys[i]) == K_UPD));
        i += 1;
    }
    assert!(got.bits == expect);
    assert!(frame_except(&before, st, |k| key_index(k) == index && key_kind(k) == K_UPD));
    kani::cover!(expect.count_ones() == 2);
    kani::cover!(expect != 0 && before.used[0] && key_index(before.keys[0]) != index && key_kind(before.keys[0]) == K_UPD);
    core::mem::forget(opt);
}

/// item_indices = exactly the ids of this index's item keys (C05, C07).
#[kani::proof]
#[kani::unwind(8)]
#[kani::stub(alloc::fmt::format, stub_format)]
fn item_indices_contract() {
    let mut store = Store::new();
    sym_store(&mut store, 4, 16);
    let before = snap(&store);
    let index: u16 = kani::any();
    let mut i = 0;
    while i < CAP {
        if before.used[i] && key_index(before.keys[i]) == index && key_kind(before.keys[i]) == K_ITEM {
            kani::assume(key_id(before.keys[i]) < 64);
        }
        i += 1;
    }
    let w = writer::<Euclidean>(index, 2);
    let mut wtxn = RwTxn::on(&mut store);
    let opt = BuildOption::default();
    let got = ok(w.item_indices(&mut wtxn, &opt));
    let st = wtxn.store();
    let mut expect: u64 = 0;
    let mut i = 0;
    while i < CAP {
        if before.used[i] && key_index(before.keys[i]) == index && key_kind(before.keys[i]) == K_ITEM {
            expect |= 1u64 << key_id(before.keys[i]);
        }
        i += 1;
    }
    assert!(got.bits == expect);
    assert!(frame_except(&before, st, |_| false));
    kani::cover!(expect.count_ones() == 2);
    core::mem::forget(opt);
}

/// used_tree_node = exactly the ids of this index's tree keys (C07, C13's initial state).
#[kani::proof]
#[kani::unwind(8)]
#[kani::stub(alloc::fmt::format, stub_format)]
fn used_tree_node_contract() {
    let mut store = Store::new();
    sym_store(&mut store, 4, 16);
    let before = snap(&store);
    let index: u16 = kani::any();
    let mut i = 0;
    while i < CAP {
        if before.used[i] && key_index(before.keys[i]) == index && key_kind(before.keys[i]) == K_TREE {
            kani::assume(key_id(before.keys[i]) < 64);
        }
        i += 1;
    }
    let w = writer::<Euclidean>(index, 2);
    let rtxn = RoTxn::on(&store);
    let opt = BuildOption::default();
    let got = ok(w.used_tree_node(&rtxn, &opt));
    let mut expect: u64 = 0;
    let mut i = 0;
    while i < CAP {
        if before.used[i] && key_index(before.keys[i]) == index && key_kind(before.keys[i]) == K_TREE {
            expect |= 1u64 << key_id(before.keys[i]);
        }
        i += 1;
    }
    assert!(got.bits == expect);
    kani::cover!(expect.count_ones() == 2);
    core::mem::forget(opt);
}
