// Native replay of C13 counterexamples: the real ConcurrentNodeIds (its atomics switched to loom's in
// the scratch copy) is run by loom under every interleaving (C11 memory model, so also the relaxed
// behaviours) of `threads` threads making `calls` requests each from the given set of ids in use.
use std::collections::BTreeSet;

use roaring::RoaringBitmap;

use super::ConcurrentNodeIds;

#[test]
fn verif_loom() {
    let spec = std::env::var("VERIF_LOOM").expect("VERIF_LOOM");
    let mut threads = 2usize;
    let mut calls = 1usize;
    let mut used: Vec<u32> = vec![];
    for part in spec.split(';') {
        let (k, v) = part.split_once('=').unwrap();
        match k {
            "threads" => threads = v.parse().unwrap(),
            "calls" => calls = v.parse().unwrap(),
            "used" => used = v.split(',').filter(|s| !s.is_empty() && *s != "-").map(|s| s.parse().unwrap()).collect(),
            _ => panic!("unknown key {k}"),
        }
    }
    let used_set: BTreeSet<u32> = used.iter().copied().collect();
    let r = std::panic::catch_unwind(move || {
        loom::model(move || {
            let ids = loom::sync::Arc::new(ConcurrentNodeIds::new(RoaringBitmap::from_iter(used.iter().copied())));
            let handles: Vec<_> = (0..threads)
                .map(|_| {
                    let ids = ids.clone();
                    loom::thread::spawn(move || {
                        let mut out = vec![];
                        for _ in 0..calls {
                            if let Ok(id) = ids.next() {
                                out.push(id);
                            }
                        }
                        out
                    })
                })
                .collect();
            let mut all: Vec<u32> = vec![];
            for h in handles {
                all.extend(h.join().unwrap());
            }
            let distinct: BTreeSet<u32> = all.iter().copied().collect();
            assert!(distinct.len() == all.len(), "the same id was handed out twice: {all:?}");
            assert!(distinct.is_disjoint(&used_set), "an id in use was handed out: {all:?} (in use {used_set:?})");
        });
    });
    match r {
        Ok(()) => println!("RESULT holds"),
        Err(e) => {
            let msg = e.downcast_ref::<String>().cloned().or_else(|| e.downcast_ref::<&str>().map(|s| s.to_string())).unwrap_or_default();
            println!("RESULT violation: under some interleaving explored by loom: {}", msg.lines().next().unwrap_or(""));
        }
    }
}
