//! Native replay of solver counterexamples against the real code and real LMDB (through heed).
//! Injected as `#[cfg(test)] mod verif_replay;` child of `writer` in a scratch copy; driven by a
//! line-based scenario file (path in $VERIF_SCENARIO).  Every line is one step; see `step()`.
use std::collections::BTreeSet;
use std::num::NonZeroUsize;

use heed::types::Bytes;
use heed::{BytesDecode, BytesEncode, EnvOpenOptions};
use rand::rngs::StdRng;
use rand::SeedableRng;
use roaring::RoaringBitmap;

use crate::distance::Euclidean;
use crate::internals::KeyCodec;
use crate::node::{Descendants, ItemIds, Leaf, SplitPlaneNormal};
use crate::node_id::NodeMode;
use crate::unaligned_vector::UnalignedVector;
use crate::{Database, Key, Metadata, MetadataCodec, Node, NodeCodec, NodeId, Reader, Writer};

type D = Euclidean;

fn floats(s: &str) -> Vec<f32> {
    if s.is_empty() {
        return vec![];
    }
    s.split(',').map(|x| x.parse::<f32>().unwrap()).collect()
}
fn ids(s: &str) -> Vec<u32> {
    if s.is_empty() || s == "-" {
        return vec![];
    }
    s.split(',').map(|x| x.parse::<u32>().unwrap()).collect()
}
fn node_id(s: &str) -> NodeId {
    let (k, i) = s.split_once(':').unwrap();
    let i: u32 = i.parse().unwrap();
    match k {
        "tree" => NodeId::tree(i),
        "item" => NodeId::item(i),
        _ => panic!("bad node id {s}"),
    }
}
fn kv<'a>(tok: &'a [&'a str], key: &str) -> Option<&'a str> {
    tok.iter().find_map(|t| t.strip_prefix(key).and_then(|r| r.strip_prefix('=')))
}

/// The C01 representation invariant, checked on the raw database of `index`:
/// every root exists and is a tree node; every tree child exists; every item child is stored;
/// no node or item is reached twice within a tree; each tree reaches exactly the stored items;
/// trees are disjoint; no unreferenced tree key.
fn check_inv(rtxn: &heed::RoTxn, db: Database<D>, index: u16) -> Result<(), String> {
    let raw = db.remap_types::<Bytes, Bytes>();
    let mut items = BTreeSet::new();
    let mut trees = BTreeSet::new();
    let mut meta: Option<Vec<u8>> = None;
    for r in raw.iter(rtxn).map_err(|e| e.to_string())? {
        let (k, v) = r.map_err(|e| e.to_string())?;
        let key = KeyCodec::bytes_decode(k).map_err(|e| e.to_string())?;
        if key.index != index {
            continue;
        }
        match key.node.mode {
            NodeMode::Item => {
                items.insert(key.node.item);
            }
            NodeMode::Tree => {
                trees.insert(key.node.item);
            }
            NodeMode::Metadata if key.node.item == 0 => meta = Some(v.to_vec()),
            _ => {}
        }
    }
    let meta = meta.ok_or("no metadata")?;
    let md = MetadataCodec::bytes_decode(&meta).map_err(|e| e.to_string())?;
    let stored: BTreeSet<u32> = md.items.iter().collect();
    if stored != items {
        return Err(format!("metadata items {stored:?} != stored items {items:?}"));
    }
    let mut seen_nodes = BTreeSet::new();
    for root in md.roots.iter() {
        let mut reached = BTreeSet::new();
        let mut stack = vec![NodeId::tree(root)];
        while let Some(n) = stack.pop() {
            match n.mode {
                NodeMode::Item => {
                    if !items.contains(&n.item) {
                        return Err(format!("tree {root} refers to item {} which is not stored", n.item));
                    }
                    if !reached.insert(n.item) {
                        return Err(format!("tree {root} reaches item {} twice", n.item));
                    }
                }
                NodeMode::Tree => {
                    if !seen_nodes.insert(n.item) {
                        return Err(format!("tree node {} reached twice / shared between trees", n.item));
                    }
                    let node = db
                        .get(rtxn, &Key::tree(index, n.item))
                        .map_err(|e| e.to_string())?
                        .ok_or(format!("tree {root} refers to missing tree node {}", n.item))?;
                    match node {
                        Node::Leaf(_) => return Err("leaf under a tree key".into()),
                        Node::Descendants(Descendants { descendants }) => {
                            for i in descendants.iter() {
                                if !items.contains(&i) {
                                    return Err(format!("bucket {} holds item {i} which is not stored", n.item));
                                }
                                if !reached.insert(i) {
                                    return Err(format!("tree {root} reaches item {i} twice"));
                                }
                            }
                        }
                        Node::SplitPlaneNormal(SplitPlaneNormal { left, right, .. }) => {
                            stack.push(left);
                            stack.push(right);
                        }
                    }
                }
                _ => return Err(format!("child of kind {:?}", n.mode)),
            }
        }
        if reached != items {
            return Err(format!("tree {root} reaches {reached:?} instead of {items:?}"));
        }
    }
    if seen_nodes != trees {
        let orphans: Vec<_> = trees.difference(&seen_nodes).collect();
        return Err(format!("unreferenced tree nodes {orphans:?}"));
    }
    Ok(())
}

/// C18 through the public API: items under D (optionally all deleted and rebuilt), change to ND;
/// every leaf must equal what add_item under ND stores for the vector item_vector returned under D;
/// no metadata / tree key may survive; the index must demand a build; a rebuild must succeed.
fn change_metric_case<D0: crate::Distance, ND: crate::Distance>(d: usize, item_ids: &[u32], empty: bool) -> Vec<String> {
    let mut verdict = vec![];
    let dir = tempfile::tempdir().unwrap();
    let env = unsafe { EnvOpenOptions::new().map_size(200 * 1024 * 1024).open(dir.path()) }.unwrap();
    let mut wtxn = env.write_txn().unwrap();
    let db: Database<D0> = env.create_database(&mut wtxn, None).unwrap();
    // neighbouring indexes 6 and 8 share the database and must not be touched
    for nb in [6u16, 8u16] {
        let wn = Writer::<D0>::new(db, nb, d);
        for n in 0..3u32 {
            let v: Vec<f32> = (0..d).map(|j| if (j as u32 + n) % 2 == 0 { 2.0 + n as f32 } else { -2.0 - j as f32 }).collect();
            wn.add_item(&mut wtxn, n, &v).unwrap();
        }
        let mut rng = StdRng::seed_from_u64(1);
        wn.builder(&mut rng).n_trees(1).split_after(2).build(&mut wtxn).unwrap();
    }
    let w = Writer::<D0>::new(db, 7, d);
    for (n, i) in item_ids.iter().enumerate() {
        let v: Vec<f32> = (0..d).map(|j| if (j + n) % 2 == 0 { 1.0 + n as f32 } else { -1.0 - j as f32 }).collect();
        w.add_item(&mut wtxn, *i, &v).unwrap();
    }
    let mut rng = StdRng::seed_from_u64(0);
    w.builder(&mut rng).n_trees(1).split_after(2).build(&mut wtxn).unwrap();
    if empty {
        for i in item_ids {
            w.del_item(&mut wtxn, *i).unwrap();
        }
        let mut rng = StdRng::seed_from_u64(0);
        w.builder(&mut rng).n_trees(1).split_after(2).build(&mut wtxn).unwrap();
    }
    if !empty {
        // pending changes at the time of the metric change: an addition, an overwrite and a deletion
        let v: Vec<f32> = (0..d).map(|j| 3.0 - j as f32).collect();
        w.add_item(&mut wtxn, 77, &v).unwrap();
        if let Some(first) = item_ids.first() {
            let v: Vec<f32> = (0..d).map(|j| -4.0 + j as f32).collect();
            w.add_item(&mut wtxn, *first, &v).unwrap();
        }
        if item_ids.len() > 2 {
            w.del_item(&mut wtxn, item_ids[1]).unwrap();
        }
    }
    let old: Vec<(u32, Vec<f32>)> = w.iter(&wtxn).unwrap().map(|r| r.unwrap()).collect();
    let others = |txn: &heed::RwTxn| -> Vec<(Vec<u8>, Vec<u8>)> {
        db.remap_types::<Bytes, Bytes>().iter(txn).unwrap().map(|r| r.unwrap())
            .filter(|(k, _)| k[0..2] != 7u16.to_be_bytes()).map(|(k, v)| (k.to_vec(), v.to_vec())).collect()
    };
    let others_before = others(&wtxn);
    let nw = w.prepare_changing_distance::<ND>(&mut wtxn).unwrap();
    let others_after = others(&wtxn);
    if others_before != others_after {
        verdict.push(format!("changing the metric of index 7 modified other indexes: {} entries before, {} afterwards",
            others_before.len(), others_after.len()));
    }
    // reference: a fresh database where the same vectors are added under ND
    let dir2 = tempfile::tempdir().unwrap();
    let env2 = unsafe { EnvOpenOptions::new().map_size(200 * 1024 * 1024).open(dir2.path()) }.unwrap();
    let mut w2txn = env2.write_txn().unwrap();
    let db2: Database<ND> = env2.create_database(&mut w2txn, None).unwrap();
    let rw = Writer::<ND>::new(db2, 7, d);
    for (i, v) in &old {
        rw.add_item(&mut w2txn, *i, &v[..d.min(v.len())]).unwrap();
    }
    let raw = db.remap_types::<Bytes, Bytes>();
    let raw2 = db2.remap_types::<Bytes, Bytes>();
    for (i, _) in &old {
        let key = Key::item(7, *i);
        let kb = KeyCodec::bytes_encode(&key).unwrap();
        let got = raw.get(&wtxn, &kb).unwrap().map(|b| b.to_vec());
        let want = raw2.get(&w2txn, &kb).unwrap().map(|b| b.to_vec());
        if got != want {
            verdict.push(format!(
                "after changing the metric the leaf of item {i} is not what add_item under the new metric stores ({} bytes vs {} bytes)",
                got.as_ref().map_or(0, |b| b.len()), want.as_ref().map_or(0, |b| b.len())));
            break;
        }
    }
    for r in raw.iter(&wtxn).unwrap() {
        let (k, _) = r.unwrap();
        let key = KeyCodec::bytes_decode(k).unwrap();
        if key.index != 7 {
            continue;
        }
        if key.node.mode == NodeMode::Tree || (key.node.mode == NodeMode::Metadata && key.node.item == 0) {
            verdict.push(format!("after changing the metric the key {:?} of the old forest/metadata is still there", key.node));
            break;
        }
    }
    if !nw.need_build(&wtxn).unwrap() {
        verdict.push("after changing the metric the index does not demand a build".into());
    }
    let v: Vec<f32> = (0..d).map(|j| j as f32 + 0.5).collect();
    nw.add_item(&mut wtxn, 9, &v).unwrap();
    let mut rng = StdRng::seed_from_u64(0);
    let r = std::panic::catch_unwind(std::panic::AssertUnwindSafe(|| {
        nw.builder(&mut rng).n_trees(1).split_after(2).build(&mut wtxn).map_err(|e| e.to_string())
    }));
    match r {
        Err(_) => verdict.push("building after the metric change panicked".into()),
        Ok(Err(e)) => verdict.push(format!("building after the metric change failed: {e}")),
        Ok(Ok(())) => println!("STEP rebuilt under the new metric"),
    }
    verdict
}

fn iter_items_case<D0: crate::Distance>(d: usize, item_ids: &[u32], side: &str) -> Vec<String> {
    let mut verdict = vec![];
    let dir = tempfile::tempdir().unwrap();
    let env = unsafe { EnvOpenOptions::new().map_size(200 * 1024 * 1024).open(dir.path()) }.unwrap();
    let mut wtxn = env.write_txn().unwrap();
    let db: Database<D0> = env.create_database(&mut wtxn, None).unwrap();
    for nb in [6u16, 8u16] {
        let wn = Writer::<D0>::new(db, nb, d);
        wn.add_item(&mut wtxn, 0, &vec![1.0; d]).unwrap();
    }
    let w = Writer::<D0>::new(db, 7, d);
    let mut sorted_ids = item_ids.to_vec();
    sorted_ids.sort();
    sorted_ids.dedup();
    for (n, i) in item_ids.iter().enumerate() {
        let v: Vec<f32> = (0..d).map(|j| if (j + n) % 2 == 0 { 1.0 } else { -1.0 }).collect();
        w.add_item(&mut wtxn, *i, &v).unwrap();
    }
    let mut rng = StdRng::seed_from_u64(0);
    w.builder(&mut rng).n_trees(1).build(&mut wtxn).unwrap();
    let got: Vec<(u32, Vec<f32>)> = if side == "reader" {
        let r = Reader::<D0>::open(&wtxn, 7, db).unwrap();
        r.iter(&wtxn).unwrap().map(|x| x.unwrap()).collect()
    } else {
        w.iter(&wtxn).unwrap().map(|x| x.unwrap()).collect()
    };
    let got_ids: Vec<u32> = got.iter().map(|(i, _)| *i).collect();
    if got_ids != sorted_ids {
        verdict.push(format!("iteration yields ids {got_ids:?}, stored are {sorted_ids:?}"));
    }
    for (i, v) in &got {
        if v.len() != d {
            verdict.push(format!("iteration yields {} components for item {i}, the declared dimension is {d}", v.len()));
            break;
        }
        let n = item_ids.iter().position(|x| x == i).unwrap_or(0);
        let want: Vec<f32> = (0..d).map(|j| if (j + n) % 2 == 0 { 1.0 } else { -1.0 }).collect();
        if *v != want {
            verdict.push(format!("iteration yields another vector than the one written for item {i}"));
            break;
        }
    }
    verdict
}

fn query_entry_case<D0: crate::Distance>(d: usize, vector_len: Option<usize>) -> Vec<String> {
    let mut verdict = vec![];
    let dir = tempfile::tempdir().unwrap();
    let env = unsafe { EnvOpenOptions::new().map_size(200 * 1024 * 1024).open(dir.path()) }.unwrap();
    let mut wtxn = env.write_txn().unwrap();
    let db: Database<D0> = env.create_database(&mut wtxn, None).unwrap();
    let vec_of = |n: usize| -> Vec<f32> { (0..d).map(|j| if (j + n) % 3 == 0 { 1.0 + n as f32 } else { -1.0 - j as f32 }).collect() };
    for nb in [6u16, 8u16] {
        let wn = Writer::<D0>::new(db, nb, d);
        wn.add_item(&mut wtxn, 2, &vec_of(7)).unwrap();
        wn.add_item(&mut wtxn, 0, &vec_of(8)).unwrap();
        let mut rng = StdRng::seed_from_u64(1);
        wn.builder(&mut rng).n_trees(1).build(&mut wtxn).unwrap();
    }
    let w = Writer::<D0>::new(db, 7, d);
    let stored = [1u32, 3, 4, 5, 6, u32::MAX];
    for (n, i) in stored.iter().enumerate() {
        w.add_item(&mut wtxn, *i, &vec_of(n)).unwrap();
    }
    let mut rng = StdRng::seed_from_u64(0);
    w.builder(&mut rng).n_trees(2).split_after(2).build(&mut wtxn).unwrap();
    let reader = Reader::<D0>::open(&wtxn, 7, db).unwrap();
    let big = NonZeroUsize::new(1_000_000).unwrap();
    for missing in [0u32, 2u32] {
        let mut q = reader.nns(3);
        q.search_k(big);
        match q.by_item(&wtxn, missing) {
            Ok(None) => {}
            Ok(Some(r)) => verdict.push(format!("by_item({missing}) answers {r:?} for an id that is not stored in this index")),
            Err(e) => verdict.push(format!("by_item({missing}) fails for an id that is not stored: {e}")),
        }
    }
    for (n, i) in stored.iter().enumerate() {
        for budget in [1usize, 2, 1_000_000] {
            let mut q = reader.nns(3);
            q.search_k(NonZeroUsize::new(budget).unwrap());
            let a = q.by_item(&wtxn, *i);
            let b = q.by_vector(&wtxn, &vec_of(n));
            match (a, b) {
                (Ok(Some(a)), Ok(b)) => {
                    if a != b {
                        verdict.push(format!("by_item({i}) = {a:?} differs from by_vector(its vector) = {b:?} (search_k {budget})"));
                    }
                }
                (a, b) => verdict.push(format!("by_item({i}) / by_vector fail on a stored item: {:?} / {:?}", a.map(|_| ()), b.map(|_| ()))),
            }
        }
    }
    let lens: Vec<usize> = match vector_len { Some(l) => vec![l], None => vec![0, d - 1, d + 1, 2 * d] };
    for l in lens {
        let v = vec![0.5f32; l];
        let q = reader.nns(3);
        match q.by_vector(&wtxn, &v) {
            Ok(_) if l == d => {}
            Ok(_) => verdict.push(format!("by_vector accepts a vector of length {l} on an index of dimension {d}")),
            Err(crate::Error::InvalidVecDimension { expected, received }) if l != d => {
                if expected != d || received != l {
                    verdict.push(format!("the dimension error says expected {expected} received {received}, should be {d} / {l}"));
                }
            }
            Err(e) => verdict.push(format!("by_vector with length {l} (dimension {d}) fails with: {e}")),
        }
    }
    if reader.is_empty(&wtxn).unwrap() || w.is_empty(&wtxn).unwrap() {
        verdict.push("is_empty answers true for an index that holds items".into());
    }
    let w9 = Writer::<D0>::new(db, 7 + 0, d);
    for i in stored {
        w9.del_item(&mut wtxn, i).unwrap();
    }
    if !w9.is_empty(&wtxn).unwrap() {
        verdict.push("Writer::is_empty answers false for an index without items (the neighbouring indexes have items)".into());
    }
    let mut rng = StdRng::seed_from_u64(0);
    w9.builder(&mut rng).n_trees(1).build(&mut wtxn).unwrap();
    let r2 = Reader::<D0>::open(&wtxn, 7, db).unwrap();
    if !r2.is_empty(&wtxn).unwrap() {
        verdict.push("Reader::is_empty answers false for an index without items (the neighbouring indexes have items)".into());
    }
    verdict
}

fn dot_preprocess_case() -> Vec<String> {
    use crate::distance::DotProduct;
    let mut verdict = vec![];
    let dir = tempfile::tempdir().unwrap();
    let env = unsafe { EnvOpenOptions::new().map_size(200 * 1024 * 1024).open(dir.path()) }.unwrap();
    let mut wtxn = env.write_txn().unwrap();
    let db: Database<DotProduct> = env.create_database(&mut wtxn, None).unwrap();
    for nb in [6u16, 8u16] {
        let wn = Writer::<DotProduct>::new(db, nb, 2);
        wn.add_item(&mut wtxn, 1, &[1.0, 2.0]).unwrap();
        wn.add_item(&mut wtxn, 2, &[2.0, 1.0]).unwrap();
        let mut rng = StdRng::seed_from_u64(1);
        wn.builder(&mut rng).n_trees(1).build(&mut wtxn).unwrap();
    }
    let raw = db.remap_types::<Bytes, Bytes>();
    let others = |txn: &heed::RwTxn| -> Vec<(Vec<u8>, Vec<u8>)> {
        raw.iter(txn).unwrap().map(|r| r.unwrap()).filter(|(k, _)| k[0..2] != 7u16.to_be_bytes())
            .map(|(k, v)| (k.to_vec(), v.to_vec())).collect()
    };
    let before = others(&wtxn);
    let w = Writer::<DotProduct>::new(db, 7, 2);
    let data: [(u32, [f32; 2]); 4] = [(1, [3.0, 4.0]), (5, [0.0, 1.0]), (9, [1.0, 0.0]), (u32::MAX, [6.0, 8.0])];
    for (i, v) in data {
        w.add_item(&mut wtxn, i, &v).unwrap();
    }
    let mut rng = StdRng::seed_from_u64(0);
    w.builder(&mut rng).n_trees(2).split_after(2).build(&mut wtxn).unwrap();
    if others(&wtxn) != before {
        verdict.push("building the dot-product index 7 modified entries of other indexes".into());
    }
    let max2 = 100.0f32;
    for (i, v) in data {
        match w.item_vector(&wtxn, i).unwrap() {
            Some(got) if got == v.to_vec() => {}
            other => verdict.push(format!("after the build item {i} reads back as {other:?}, written {v:?}")),
        }
        let kb = KeyCodec::bytes_encode(&Key::item(7, i)).unwrap().into_owned();
        let bytes = raw.get(&wtxn, &kb).unwrap().unwrap();
        let extra = f32::from_ne_bytes(bytes[1..5].try_into().unwrap());
        let norm = f32::from_ne_bytes(bytes[5..9].try_into().unwrap());
        let n2 = v[0] * v[0] + v[1] * v[1];
        let want_extra = (max2 - n2).sqrt();
        if (norm - max2).abs() > 1e-3 || (extra - want_extra).abs() > 1e-3 {
            verdict.push(format!("header of item {i} after the build is (extra_dim {extra}, norm {norm}), expected ({want_extra}, {max2})"));
        }
    }
    verdict
}

fn degenerate_build_case<D0: crate::Distance>(name: &'static str) -> Vec<String> {
    // 40 all-zero vectors and 40 NaN vectors (dimension 2, 2 trees) must build within a minute
    let (tx, rx) = std::sync::mpsc::channel::<Vec<String>>();
    std::thread::spawn(move || {
        let mut verdict = vec![];
        for (label, value) in [("all-zero", 0.0f32), ("NaN", f32::NAN)] {
            let dir = tempfile::tempdir().unwrap();
            let env = unsafe { EnvOpenOptions::new().map_size(200 * 1024 * 1024).open(dir.path()) }.unwrap();
            let mut wtxn = env.write_txn().unwrap();
            let db: Database<D0> = env.create_database(&mut wtxn, None).unwrap();
            let w = Writer::<D0>::new(db, 0, 2);
            for i in 0..40u32 {
                w.add_item(&mut wtxn, i, &[value, value]).unwrap();
            }
            let mut rng = StdRng::seed_from_u64(0);
            let r = std::panic::catch_unwind(std::panic::AssertUnwindSafe(|| {
                w.builder(&mut rng).n_trees(2).build(&mut wtxn).map_err(|e| e.to_string())
            }));
            match r {
                Err(_) => verdict.push(format!("building 40 {label} vectors under {name} panicked")),
                Ok(Err(e)) => verdict.push(format!("building 40 {label} vectors under {name} failed: {e}")),
                Ok(Ok(())) => {}
            }
        }
        let _ = tx.send(verdict);
    });
    match rx.recv_timeout(std::time::Duration::from_secs(60)) {
        Ok(v) => v,
        Err(_) => vec![format!("building 40 degenerate vectors under {name} did not finish within 60 s")],
    }
}

fn mapfull_sweep_case() -> Vec<String> {
    // A build that shrinks the forest (8 trees -> 2) with pending deletions and insertions is replayed
    // with 0, 1, 2, ... free pages left in the LMDB map: every outcome must be Ok (and then a valid
    // forest) or the out-of-space error itself.
    use heed::MdbError;
    let mut verdict = vec![];
    let page = 4096usize;
    let base = tempfile::tempdir().unwrap();
    let open = |path: &std::path::Path, size: usize| {
        let env = unsafe { EnvOpenOptions::new().map_size(size).open(path) }.unwrap();
        let mut wtxn = env.write_txn().unwrap();
        let db: Database<D> = env.create_database(&mut wtxn, None).unwrap();
        wtxn.commit().unwrap();
        (env, db)
    };
    let n_items = 300u32;
    let vec_of = |i: u32| -> Vec<f32> { vec![((i * 37) % 101) as f32 - 50.0, ((i * 53) % 97) as f32 - 48.0, (i % 7) as f32, 1.0] };
    {
        let (env, db) = open(base.path(), 200 * 1024 * 1024);
        let mut wtxn = env.write_txn().unwrap();
        let w = Writer::<D>::new(db, 0, 4);
        for i in 0..n_items {
            w.add_item(&mut wtxn, i, &vec_of(i)).unwrap();
        }
        let mut rng = StdRng::seed_from_u64(10);
        w.builder(&mut rng).n_trees(8).build(&mut wtxn).unwrap();
        wtxn.commit().unwrap();
        env.prepare_for_closing().wait();
    }
    let data_len = std::fs::metadata(base.path().join("data.mdb")).unwrap().len() as usize;
    let data_len = data_len.div_ceil(page) * page;
    let (mut successes, mut map_full, mut free) = (0, 0, 0usize);
    while successes < 3 && free < 1500 && verdict.is_empty() {
        let dir = tempfile::tempdir().unwrap();
        std::fs::copy(base.path().join("data.mdb"), dir.path().join("data.mdb")).unwrap();
        let (env, db) = open(dir.path(), data_len + free * page);
        let mut wtxn = env.write_txn().unwrap();
        let w = Writer::<D>::new(db, 0, 4);
        let mut prepared = true;
        for i in (0..n_items).step_by(7) {
            prepared &= w.del_item(&mut wtxn, i).is_ok();
        }
        for i in n_items..n_items + 20 {
            prepared &= w.add_item(&mut wtxn, i, &vec_of(i)).is_ok();
        }
        if prepared {
            let mut rng = StdRng::seed_from_u64(11);
            let r = std::panic::catch_unwind(std::panic::AssertUnwindSafe(|| w.builder(&mut rng).n_trees(2).build(&mut wtxn)));
            match r {
                Err(_) => verdict.push(format!("with {free} free pages the build panicked")),
                Ok(Ok(())) => {
                    if let Err(e) = check_inv(&wtxn, db, 0) {
                        verdict.push(format!("with {free} free pages the build reports success over an invalid forest: {e}"));
                    }
                    successes += 1;
                }
                Ok(Err(crate::Error::Heed(heed::Error::Mdb(MdbError::MapFull)))) => map_full += 1,
                Ok(Err(other)) => verdict.push(format!(
                    "with {free} free pages the build ran out of space but reported `{other}` instead of MDB_MAP_FULL")),
            }
        }
        drop(wtxn);
        env.prepare_for_closing().wait();
        free += 1;
    }
    if verdict.is_empty() && map_full < 3 {
        panic!("the sweep did not exercise the out-of-space path ({map_full} times): replay harness problem");
    }
    println!("STEP mapfull sweep: {map_full} out-of-space outcomes, {successes} successes, {free} runs");
    verdict
}

#[test]
fn verif_replay() {
    let path = std::env::var("VERIF_SCENARIO").expect("VERIF_SCENARIO");
    let all = std::fs::read_to_string(path).unwrap();
    // several scenarios may be given, separated by lines "=== <name>"; each runs in a fresh database
    let mut scenarios: Vec<(String, String)> = vec![];
    for line in all.lines() {
        if let Some(name) = line.strip_prefix("=== ") {
            scenarios.push((name.trim().to_string(), String::new()));
        } else {
            if scenarios.is_empty() {
                scenarios.push(("main".to_string(), String::new()));
            }
            let last = scenarios.last_mut().unwrap();
            last.1.push_str(line);
            last.1.push('\n');
        }
    }
    // a panic raised at a line of this harness (an unwrap of ours) is a broken replay, not a
    // reproduction; a panic raised inside arroy or its dependencies is the violation
    static LAST_PANIC_FILE: std::sync::Mutex<String> = std::sync::Mutex::new(String::new());
    let default_hook = std::panic::take_hook();
    std::panic::set_hook(Box::new(move |info| {
        if let Some(l) = info.location() {
            *LAST_PANIC_FILE.lock().unwrap() = format!("{}:{}", l.file(), l.line());
        }
        default_hook(info);
    }));
    for (name, text) in scenarios {
        println!("SCENARIO {name}");
        LAST_PANIC_FILE.lock().unwrap().clear();
        let r = std::panic::catch_unwind(|| run_one(&text));
        if r.is_err() {
            let at = LAST_PANIC_FILE.lock().unwrap().clone();
            if at.contains("verif_replay.rs") {
                println!("RESULT harness-panic: the replay harness itself failed at {at} in scenario {name}");
            } else {
                println!("RESULT violation: panic at {at} while running scenario {name}");
            }
        }
    }
}

fn run_one(text: &str) {
    let dir = tempfile::tempdir().unwrap();
    let env = unsafe { EnvOpenOptions::new().map_size(200 * 1024 * 1024).open(dir.path()) }.unwrap();
    let mut wtxn = env.write_txn().unwrap();
    let db: Database<D> = env.create_database(&mut wtxn, None).unwrap();
    let raw = db.remap_types::<Bytes, Bytes>();
    let mut dim = 2usize;
    let mut index = 0u16;
    let mut verdict: Vec<String> = vec![];
    for line in text.lines() {
        let line = line.trim();
        if line.is_empty() || line.starts_with('#') {
            continue;
        }
        let tok: Vec<&str> = line.split_whitespace().collect();
        let writer = Writer::<D>::new(db, index, dim);
        match tok[0] {
            "dim" => dim = tok[1].parse().unwrap(),
            "index" => index = tok[1].parse().unwrap(),
            "raw_item" => {
                let v = floats(tok[2]);
                let vector = UnalignedVector::from_slice(&v);
                let leaf: Node<D> = Node::Leaf(Leaf { header: <D as crate::Distance>::new_header(&vector), vector });
                db.put(&mut wtxn, &Key::item(index, tok[1].parse().unwrap()), &leaf).unwrap();
            }
            "raw_bucket" => {
                let bm = RoaringBitmap::from_iter(ids(tok[2]));
                let node: Node<D> = Node::Descendants(Descendants { descendants: std::borrow::Cow::Owned(bm) });
                db.put(&mut wtxn, &Key::tree(index, tok[1].parse().unwrap()), &node).unwrap();
            }
            "raw_split" => {
                let v = floats(tok[4]);
                let node: Node<D> = Node::SplitPlaneNormal(SplitPlaneNormal {
                    left: node_id(tok[2]),
                    right: node_id(tok[3]),
                    normal: UnalignedVector::from_slice(&v),
                });
                db.put(&mut wtxn, &Key::tree(index, tok[1].parse().unwrap()), &node).unwrap();
            }
            "raw_meta" => {
                let roots = ids(kv(&tok, "roots").unwrap());
                let items = RoaringBitmap::from_iter(ids(kv(&tok, "items").unwrap()));
                let md = Metadata {
                    dimensions: dim as u32,
                    items,
                    roots: ItemIds::from_slice(&roots),
                    distance: <D as crate::Distance>::name(),
                };
                db.remap_data_type::<MetadataCodec>().put(&mut wtxn, &Key::metadata(index), &md).unwrap();
            }
            "raw_updated" => {
                let key = Key::updated(index, tok[1].parse().unwrap());
                let k = KeyCodec::bytes_encode(&key).unwrap();
                raw.put(&mut wtxn, &k, &[]).unwrap();
            }
            "add" => writer.add_item(&mut wtxn, tok[1].parse().unwrap(), &floats(tok[2])).unwrap(),
            "del" => {
                writer.del_item(&mut wtxn, tok[1].parse().unwrap()).unwrap();
            }
            "build" => {
                let mut rng = StdRng::seed_from_u64(kv(&tok, "seed").map_or(0, |s| s.parse().unwrap()));
                let mut b = writer.builder(&mut rng);
                if let Some(n) = kv(&tok, "n_trees").filter(|s| *s != "auto") {
                    b.n_trees(n.parse().unwrap());
                }
                if let Some(n) = kv(&tok, "split_after").filter(|s| *s != "none") {
                    b.split_after(n.parse().unwrap());
                }
                // cancel_from=N: the cancellation callback answers true from its N-th poll on
                let cancel_from: Option<usize> = kv(&tok, "cancel_from").map(|s| s.parse().unwrap());
                let polls = std::sync::Arc::new(std::sync::atomic::AtomicUsize::new(0));
                if let Some(n) = cancel_from {
                    let polls = polls.clone();
                    b.cancel(move || polls.fetch_add(1, std::sync::atomic::Ordering::SeqCst) + 1 >= n);
                }
                match b.build(&mut wtxn) {
                    Err(crate::Error::BuildCancelled) if cancel_from.is_some() => {
                        println!("STEP build cancelled (the caller aborts the transaction: scenario ends)");
                        break;
                    }
                    Ok(()) => println!("STEP build ok"),
                    Err(e) => {
                        println!("STEP build error: {e}");
                        verdict.push(format!("build failed: {e}"));
                    }
                }
            }
            "expect_valid" => match check_inv(&wtxn, db, index) {
                Ok(()) => println!("STEP valid"),
                Err(e) => {
                    println!("STEP invalid: {e}");
                    verdict.push(format!("forest invalid: {e}"));
                }
            },
            "monotone_check" => {
                // count=.. candidates=.. vec=.. : the results for search_k = 1, 2, ..., 12 must never get
                // shorter nor farther at any rank when the budget grows
                let reader = match Reader::<D>::open(&wtxn, index, db) {
                    Ok(r) => r,
                    Err(e) => {
                        verdict.push(format!("reader does not open: {e}"));
                        continue;
                    }
                };
                let count: usize = kv(&tok, "count").unwrap().parse().unwrap();
                let v = floats(kv(&tok, "vec").unwrap());
                let cand: Option<RoaringBitmap> =
                    kv(&tok, "candidates").filter(|s| *s != "none").map(|s| RoaringBitmap::from_iter(ids(s)));
                let mut prev: Option<(usize, Vec<(u32, f32)>)> = None;
                for k in 1..=12usize {
                    let mut q = reader.nns(count);
                    q.search_k(NonZeroUsize::new(k).unwrap());
                    if let Some(c) = cand.as_ref() {
                        q.candidates(c);
                    }
                    let got = match q.by_vector(&wtxn, &v) {
                        Ok(g) => g,
                        Err(e) => {
                            verdict.push(format!("query with search_k {k} fails: {e}"));
                            break;
                        }
                    };
                    if let Some((pk, p)) = &prev {
                        if got.len() < p.len() {
                            verdict.push(format!("search_k {pk} returns {} results, search_k {k} only {}", p.len(), got.len()));
                            break;
                        }
                        if let Some(i) = (0..p.len()).find(|i| got[*i].1 > p[*i].1) {
                            verdict.push(format!("rank {i}: search_k {pk} returns distance {}, search_k {k} the farther {}", p[i].1, got[i].1));
                            break;
                        }
                    }
                    prev = Some((k, got));
                }
            }
            "query" => {
                let reader = match Reader::<D>::open(&wtxn, index, db) {
                    Ok(r) => r,
                    Err(e) => {
                        verdict.push(format!("reader does not open: {e}"));
                        continue;
                    }
                };
                let count: usize = kv(&tok, "count").unwrap().parse().unwrap();
                let v = floats(kv(&tok, "vec").unwrap());
                let cand: Option<RoaringBitmap> =
                    kv(&tok, "candidates").filter(|s| *s != "none").map(|s| RoaringBitmap::from_iter(ids(s)));
                let r = std::panic::catch_unwind(std::panic::AssertUnwindSafe(|| {
                    let mut q = reader.nns(count);
                    if let Some(k) = kv(&tok, "search_k").filter(|s| *s != "none") {
                        q.search_k(NonZeroUsize::new(k.parse().unwrap()).unwrap());
                    }
                    if let Some(k) = kv(&tok, "oversampling").filter(|s| *s != "none") {
                        q.oversampling(NonZeroUsize::new(k.parse().unwrap()).unwrap());
                    }
                    if let Some(c) = cand.as_ref() {
                        q.candidates(c);
                    }
                    q.by_vector(&wtxn, &v)
                }));
                match r {
                    Err(_) => verdict.push("query panicked".into()),
                    Ok(Err(e)) => verdict.push(format!("query error: {e}")),
                    Ok(Ok(got)) => {
                        println!("STEP query -> {got:?}");
                        if let Some(min) = kv(&tok, "expect_len") {
                            let min: usize = min.parse().unwrap();
                            if got.len() != min {
                                verdict.push(format!("query returned {} results, expected {min}", got.len()));
                            }
                        }
                        let check = kv(&tok, "check").unwrap_or("none");
                        if check != "none" {
                            // brute force over the stored items (Euclidean)
                            let mut all: Vec<(u32, f32)> = vec![];
                            for it in writer.iter(&wtxn).unwrap() {
                                let (id, vec) = it.unwrap();
                                if cand.as_ref().map_or(true, |c| c.contains(id)) {
                                    let d: f32 = vec.iter().zip(v.iter()).map(|(a, b)| (a - b) * (a - b)).sum::<f32>().sqrt();
                                    all.push((id, d));
                                }
                            }
                            all.sort_by(|a, b| a.1.partial_cmp(&b.1).unwrap().then(a.0.cmp(&b.0)));
                            if got.len() > count {
                                verdict.push(format!("{} results for count {count}", got.len()));
                            }
                            let mut seen = BTreeSet::new();
                            for (i, (id, d)) in got.iter().enumerate() {
                                if !seen.insert(*id) {
                                    verdict.push(format!("item {id} returned twice"));
                                }
                                match all.iter().find(|(j, _)| j == id) {
                                    None => verdict.push(format!("item {id} is not a stored item inside the filter")),
                                    Some((_, td)) => {
                                        if (td - d).abs() > 1e-4 {
                                            verdict.push(format!("item {id} reported at distance {d}, true distance {td}"));
                                        }
                                    }
                                }
                                if i > 0 && got[i - 1].1 > *d {
                                    verdict.push("results are not ordered nearest first".into());
                                }
                            }
                            if check == "exact" {
                                let want: Vec<u32> = all.iter().take(count).map(|(i, _)| *i).collect();
                                let have: Vec<u32> = got.iter().map(|(i, _)| *i).collect();
                                let wd: Vec<f32> = all.iter().take(count).map(|(_, d)| *d).collect();
                                let hd: Vec<f32> = got.iter().map(|(_, d)| *d).collect();
                                if have.len() != want.len() || wd.iter().zip(hd.iter()).any(|(a, b)| (a - b).abs() > 1e-4) {
                                    verdict.push(format!("exact search returned {have:?}, brute force says {want:?}"));
                                }
                            }
                        }
                    }
                }
            }
            "change_metric" => {
                // from=<m> to=<m> dim=N items=a,b empty=0|1 : self-contained sub-scenario (own database)
                let d: usize = kv(&tok, "dim").unwrap().parse().unwrap();
                let item_ids = ids(kv(&tok, "items").unwrap_or("1,2,3,4294967295"));
                let empty = kv(&tok, "empty").unwrap_or("0") == "1";
                let from = kv(&tok, "from").unwrap();
                let to = kv(&tok, "to").unwrap();
                macro_rules! go {
                    ($D:ty, $ND:ty) => {{
                        let r = change_metric_case::<$D, $ND>(d, &item_ids, empty);
                        verdict.extend(r);
                    }};
                }
                use crate::distance::{BinaryQuantizedCosine as Bqc, BinaryQuantizedEuclidean as Bqe, Cosine, Manhattan};
                match (from, to) {
                    ("euclidean", "cosine") => go!(Euclidean, Cosine),
                    ("euclidean", "manhattan") => go!(Euclidean, Manhattan),
                    ("euclidean", "bq_euclidean") => go!(Euclidean, Bqe),
                    ("bq_euclidean", "euclidean") => go!(Bqe, Euclidean),
                    ("bq_euclidean", "cosine") => go!(Bqe, Cosine),
                    ("bq_euclidean", "bq_cosine") => go!(Bqe, Bqc),
                    _ => panic!("unsupported metric pair"),
                }
            }
            "iter_items" => {
                // metric=euclidean|bq_euclidean dim=N side=writer|reader items=a,b : iteration must
                // yield the stored ids in ascending order with vectors at the declared dimension
                let d: usize = kv(&tok, "dim").unwrap().parse().unwrap();
                let item_ids = ids(kv(&tok, "items").unwrap_or("1,2"));
                let side = kv(&tok, "side").unwrap_or("writer");
                use crate::distance::BinaryQuantizedEuclidean as Bqe;
                let r = match kv(&tok, "metric").unwrap() {
                    "euclidean" => iter_items_case::<Euclidean>(d, &item_ids, side),
                    "bq_euclidean" => iter_items_case::<Bqe>(d, &item_ids, side),
                    _ => panic!("unsupported metric"),
                };
                verdict.extend(r);
            }
            "query_entry" => {
                // metric=.. dim=N [vector_len=L] : by_item / by_vector / is_empty against their contracts
                let d: usize = kv(&tok, "dim").unwrap().parse().unwrap();
                let vl: Option<usize> = kv(&tok, "vector_len").map(|s| s.parse().unwrap());
                use crate::distance::BinaryQuantizedEuclidean as Bqe;
                let r = match kv(&tok, "metric").unwrap() {
                    "euclidean" => query_entry_case::<Euclidean>(d, vl),
                    "bq_euclidean" => query_entry_case::<Bqe>(d, vl),
                    _ => panic!("unsupported metric"),
                };
                verdict.extend(r);
            }
            "dot_preprocess" => {
                verdict.extend(dot_preprocess_case());
            }
            "degenerate_build" => {
                use crate::distance::{BinaryQuantizedCosine, Cosine, DotProduct};
                verdict.extend(degenerate_build_case::<Cosine>("cosine"));
                verdict.extend(degenerate_build_case::<DotProduct>("dot-product"));
                verdict.extend(degenerate_build_case::<BinaryQuantizedCosine>("binary quantized cosine"));
            }
            "mapfull_sweep" => {
                verdict.extend(mapfull_sweep_case());
            }
            "cosine_definition" => {
                // reported cosine distances against an f64 reference on pairs with a tiny, an ordinary and a huge norm
                use crate::distance::Cosine;
                let dir2 = tempfile::tempdir().unwrap();
                let env2 = unsafe { EnvOpenOptions::new().map_size(50 * 1024 * 1024).open(dir2.path()) }.unwrap();
                let mut t2 = env2.write_txn().unwrap();
                let dbc: Database<Cosine> = env2.create_database(&mut t2, None).unwrap();
                for d in [3usize, 17, 40] {
                    let w = Writer::<Cosine>::new(dbc, d as u16, d);
                    let base: Vec<f32> = (0..d).map(|j| if j % 2 == 0 { 1.0 } else { -0.5 }).collect();
                    let ortho: Vec<f32> = (0..d).map(|j| if j == 0 { 0.5 } else if j == 1 { 1.0 } else { 0.0 }).collect();
                    let vecs: Vec<Vec<f32>> = vec![
                        base.iter().map(|x| x * 1e-8).collect(),
                        base.iter().map(|x| -x * 1e4).collect(),
                        base.iter().map(|x| x * 1e4).collect(),
                        ortho.clone(),
                        base.clone(),
                    ];
                    for (i, v) in vecs.iter().enumerate() {
                        w.add_item(&mut t2, i as u32, v).unwrap();
                    }
                    let mut rng = StdRng::seed_from_u64(0);
                    w.builder(&mut rng).n_trees(1).build(&mut t2).unwrap();
                    let r = Reader::<Cosine>::open(&t2, d as u16, dbc).unwrap();
                    for (i, v) in vecs.iter().enumerate() {
                        let mut q = r.nns(vecs.len());
                        q.search_k(NonZeroUsize::new(1_000_000).unwrap());
                        let got = q.by_vector(&t2, v).unwrap();
                        for (j, dist) in got {
                            let u = &vecs[j as usize];
                            let dot: f64 = u.iter().zip(v.iter()).map(|(a, b)| *a as f64 * *b as f64).sum();
                            let nu: f64 = u.iter().map(|a| (*a as f64).powi(2)).sum::<f64>().sqrt();
                            let nv: f64 = v.iter().map(|a| (*a as f64).powi(2)).sum::<f64>().sqrt();
                            let want = if nu * nv > f32::EPSILON as f64 { (1.0 - (dot / (nu * nv)).clamp(-1.0, 1.0)) / 2.0 } else { 0.0 };
                            if (dist as f64 - want).abs() > 1e-3 {
                                verdict.push(format!("dim {d}: cosine distance({i}, {j}) reported as {dist}, the definition gives {want}"));
                            }
                        }
                    }
                }
            }
            "budget_equiv" => {
                // leaving the budget unset with oversampling=o must equal search_k = count * n_trees * o
                let reader = Reader::<D>::open(&wtxn, index, db).unwrap();
                let o: usize = kv(&tok, "oversampling").unwrap().parse().unwrap();
                let count: usize = kv(&tok, "count").unwrap().parse().unwrap();
                let n_q: usize = kv(&tok, "queries").unwrap_or("16").parse().unwrap();
                for qi in 0..n_q {
                    let mut v = vec![0.0f32; dim];
                    v[0] = qi as f32 * 3.7 + 0.31;
                    let mut a = reader.nns(count);
                    a.oversampling(NonZeroUsize::new(o).unwrap());
                    let ra = a.by_vector(&wtxn, &v).unwrap();
                    let mut b = reader.nns(count);
                    b.search_k(NonZeroUsize::new(count * reader.n_trees() * o).unwrap());
                    let rb = b.by_vector(&wtxn, &v).unwrap();
                    if ra != rb {
                        verdict.push(format!("query {qi}: unset budget with oversampling {o} returns {ra:?}, the equivalent explicit budget returns {rb:?}"));
                        break;
                    }
                }
            }
            "upgrade" => {
                // pending=a,b : a v0.4 cosine database (old key kinds) is upgraded into a junk-filled one
                use crate::distance::Cosine;
                let pending = ids(kv(&tok, "pending").unwrap_or("-"));
                let d1 = tempfile::tempdir().unwrap();
                let e1 = unsafe { EnvOpenOptions::new().map_size(50 * 1024 * 1024).open(d1.path()) }.unwrap();
                let mut t1 = e1.write_txn().unwrap();
                let src: Database<Cosine> = e1.create_database(&mut t1, None).unwrap();
                let d2 = tempfile::tempdir().unwrap();
                let e2 = unsafe { EnvOpenOptions::new().map_size(50 * 1024 * 1024).open(d2.path()) }.unwrap();
                let mut t2 = e2.write_txn().unwrap();
                let dst: Database<Cosine> = e2.create_database(&mut t2, None).unwrap();
                let rs = src.remap_types::<Bytes, Bytes>();
                let rd = dst.remap_types::<Bytes, Bytes>();
                let okey = |index: u16, kind: u8, id: u32| -> Vec<u8> {
                    let mut k = index.to_be_bytes().to_vec();
                    k.push(kind);
                    k.extend_from_slice(&id.to_be_bytes());
                    k.push(0);
                    k
                };
                // values
                let leaf = |x: f32| -> Vec<u8> {
                    let v = [x, 1.0];
                    let uv = UnalignedVector::<f32>::from_slice(&v);
                    let l: Node<Cosine> = Node::Leaf(Leaf { header: <Cosine as crate::Distance>::new_header(&uv), vector: uv });
                    NodeCodec::<Cosine>::bytes_encode(&l).unwrap().into_owned()
                };
                let child = |kind: u8, id: u32| -> Vec<u8> {
                    let mut b = vec![kind];
                    b.extend_from_slice(&id.to_be_bytes());
                    b
                };
                let split = |l: Vec<u8>, r: Vec<u8>| -> Vec<u8> {
                    let mut b = vec![2u8];
                    b.extend(l);
                    b.extend(r);
                    b.extend_from_slice(&1.0f32.to_ne_bytes());
                    b.extend_from_slice(&0.0f32.to_ne_bytes());
                    b
                };
                let bucket = |v: &[u32]| -> Vec<u8> {
                    let mut b = vec![1u8];
                    RoaringBitmap::from_iter(v.iter().copied()).serialize_into(&mut b).unwrap();
                    b
                };
                let meta = |name: &str| -> Vec<u8> {
                    let md = Metadata { dimensions: 2, items: RoaringBitmap::from_iter([1u32, 7]), roots: ItemIds::from_slice(&[0]), distance: name };
                    MetadataCodec::bytes_encode(&md).unwrap().into_owned()
                };
                let mut pend = vec![];
                RoaringBitmap::from_iter(pending.iter().copied()).serialize_into(&mut pend).unwrap();
                let old: Vec<(Vec<u8>, Vec<u8>)> = vec![
                    (okey(0, 0, 1), leaf(1.0)), (okey(0, 0, 7), leaf(7.0)),
                    (okey(0, 1, 0), split(child(0, 1), child(1, 2))), (okey(0, 1, 2), bucket(&[1, 7])),
                    (okey(0, 1, 3), split(child(1, 2), child(0, 7))),
                    (okey(0, 2, 0), meta("angular")), (okey(0, 2, 1), pend),
                    (okey(5, 0, 3), leaf(3.0)), (okey(5, 2, 0), meta("angular")),
                ];
                for (k, v) in &old {
                    rs.put(&mut t1, k, v).unwrap();
                }
                rd.put(&mut t2, &okey(0, 3, 99), &[1, 2, 3]).unwrap();
                rd.put(&mut t2, &okey(9, 0, 0), &[4]).unwrap();
                match crate::upgrade::cosine_from_0_4_to_0_5(&t1, src, &mut t2, dst) {
                    Err(e) => verdict.push(format!("the upgrade failed: {e}")),
                    Ok(()) => {
                        let mut want: Vec<(Vec<u8>, Vec<u8>)> = vec![
                            (okey(0, 3, 1), leaf(1.0)), (okey(0, 3, 7), leaf(7.0)),
                            (okey(0, 2, 0), split(child(3, 1), child(2, 2))), (okey(0, 2, 2), bucket(&[1, 7])),
                            (okey(0, 2, 3), split(child(2, 2), child(3, 7))),
                            (okey(0, 0, 0), meta("cosine")),
                            (okey(5, 3, 3), leaf(3.0)), (okey(5, 0, 0), meta("cosine")),
                        ];
                        for p in &pending {
                            want.push((okey(0, 1, *p), vec![]));
                        }
                        want.sort();
                        let got: Vec<(Vec<u8>, Vec<u8>)> =
                            rd.iter(&t2).unwrap().map(|r| r.unwrap()).map(|(k, v)| (k.to_vec(), v.to_vec())).collect();
                        if got != want {
                            let first = got.iter().zip(want.iter()).position(|(a, b)| a != b).unwrap_or(got.len().min(want.len()));
                            verdict.push(format!(
                                "the upgraded database is not the current-layout image of the v0.4 one: {} entries vs {} expected, first difference at entry {first}: got key {:?}, expected key {:?}",
                                got.len(), want.len(), got.get(first).map(|x| &x.0), want.get(first).map(|x| &x.0)));
                        }
                    }
                }
            }
            "upgrade06" => {
                use crate::distance::Cosine;
                let d1 = tempfile::tempdir().unwrap();
                let e1 = unsafe { EnvOpenOptions::new().map_size(50 * 1024 * 1024).open(d1.path()) }.unwrap();
                let mut t1 = e1.write_txn().unwrap();
                let dbc: Database<Cosine> = e1.create_database(&mut t1, None).unwrap();
                let rawc = dbc.remap_types::<Bytes, Bytes>();
                let with_meta = [0u16, 5, 65535];
                for i in with_meta {
                    let md = Metadata { dimensions: 2, items: RoaringBitmap::new(), roots: ItemIds::from_slice(&[]), distance: "cosine" };
                    dbc.remap_data_type::<MetadataCodec>().put(&mut t1, &Key::metadata(i), &md).unwrap();
                }
                let k3 = Key::item(3, 1);
                let kb3 = KeyCodec::bytes_encode(&k3).unwrap();
                rawc.put(&mut t1, &kb3, &[0, 0, 0, 0, 0]).unwrap();
                t1.commit().unwrap();
                let rt = e1.read_txn().unwrap();
                let mut wt = e1.write_txn().unwrap();
                let before: Vec<(Vec<u8>, Vec<u8>)> = rawc.iter(&rt).unwrap().map(|r| r.unwrap()).map(|(k, v)| (k.to_vec(), v.to_vec())).collect();
                match crate::upgrade::from_0_5_to_0_6(&rt, dbc, &mut wt, dbc) {
                    Err(e) => verdict.push(format!("the upgrade failed: {e}")),
                    Ok(()) => {
                        let after: Vec<(Vec<u8>, Vec<u8>)> = rawc.iter(&wt).unwrap().map(|r| r.unwrap()).map(|(k, v)| (k.to_vec(), v.to_vec())).collect();
                        let mut want = before.clone();
                        for i in with_meta {
                            let kv_ = Key::version(i);
                            let kb = KeyCodec::bytes_encode(&kv_).unwrap().into_owned();
                            let maj: u32 = env!("CARGO_PKG_VERSION_MAJOR").parse().unwrap();
                            let min: u32 = env!("CARGO_PKG_VERSION_MINOR").parse().unwrap();
                            let pat: u32 = env!("CARGO_PKG_VERSION_PATCH").parse().unwrap();
                            let mut v = maj.to_be_bytes().to_vec();
                            v.extend_from_slice(&min.to_be_bytes());
                            v.extend_from_slice(&pat.to_be_bytes());
                            want.push((kb, v));
                        }
                        want.sort();
                        if after != want {
                            verdict.push(format!("0.5 -> 0.6: {} entries afterwards, {} expected (version records exactly for the indexes with metadata)", after.len(), want.len()));
                        }
                    }
                }
            }
            "simd" => {
                // kernel=dot|euclid n=N : the dispatcher on one-hot and small-integer inputs, where f32
                // arithmetic is exact, against the definition computed in u64
                let n: usize = kv(&tok, "n").unwrap().parse().unwrap();
                let kernel = kv(&tok, "kernel").unwrap();
                let run = |a: &[f32], b: &[f32]| -> f32 {
                    let ua = UnalignedVector::<f32>::from_slice(a);
                    let ub = UnalignedVector::<f32>::from_slice(b);
                    if kernel == "dot" {
                        crate::spaces::simple::dot_product(&ua, &ub)
                    } else {
                        crate::spaces::simple::euclidean_distance(&ua, &ub)
                    }
                };
                let a: Vec<f32> = (0..n).map(|i| 1.0 + (i % 13) as f32).collect();
                let b: Vec<f32> = (0..n).map(|i| 1.0 + ((i * 7) % 11) as f32).collect();
                let want: f32 = (0..n)
                    .map(|i| if kernel == "dot" { a[i] * b[i] } else { (a[i] - b[i]) * (a[i] - b[i]) })
                    .sum();
                let got = run(&a, &b);
                if got != want {
                    verdict.push(format!("{kernel} kernel, length {n}: got {got}, the definition gives {want}"));
                }
                // far from the origin, close to each other: a formula that cancels catastrophically in f32
                // (e.g. |u|^2 + |v|^2 - 2 u.v) is off by orders of magnitude; summation order is not
                let far_a: Vec<f32> = (0..n).map(|i| 1000.0 + i as f32).collect();
                let far_b: Vec<f32> = (0..n).map(|i| 1000.0 + i as f32 + 0.0009765625).collect();
                let want64: f64 = (0..n)
                    .map(|i| {
                        let (x, y) = (far_a[i] as f64, far_b[i] as f64);
                        if kernel == "dot" { x * y } else { (x - y) * (x - y) }
                    })
                    .sum();
                let got = run(&far_a, &far_b) as f64;
                if (got - want64).abs() > 1e-3 * want64.abs() {
                    verdict.push(format!("{kernel} kernel, length {n}, close vectors far from the origin: got {got}, the definition gives {want64}"));
                }
                for hot in 0..n {
                    let mut x = vec![0.0f32; n];
                    x[hot] = 3.0;
                    let y: Vec<f32> = if kernel == "dot" { (0..n).map(|i| if i == hot { 5.0 } else { 7.0 }).collect() } else { vec![0.0; n] };
                    let want = if kernel == "dot" { 15.0 } else { 9.0 };
                    let got = run(&x, &y);
                    if got != want {
                        verdict.push(format!("{kernel} kernel, length {n}, one-hot lane {hot}: got {got}, expected {want}"));
                        break;
                    }
                }
            }
            "expect_routing" => {
                // every stored item lies on the side of each non-degenerate plane above it to which a
                // query equal to its own vector is sent first (margin = dot(normal, vector), zero exempt)
                fn items_under(db: Database<D>, rtxn: &heed::RoTxn, index: u16, n: NodeId, out: &mut Vec<u32>) {
                    match n.mode {
                        NodeMode::Item => out.push(n.item),
                        _ => match db.get(rtxn, &Key::tree(index, n.item)).unwrap() {
                            Some(Node::Descendants(Descendants { descendants })) => out.extend(descendants.iter()),
                            Some(Node::SplitPlaneNormal(SplitPlaneNormal { left, right, .. })) => {
                                items_under(db, rtxn, index, left, out);
                                items_under(db, rtxn, index, right, out);
                            }
                            _ => {}
                        },
                    }
                }
                let mut bad = None;
                for r in raw.iter(&wtxn).unwrap() {
                    let (k, v) = r.unwrap();
                    let key = KeyCodec::bytes_decode(k).unwrap();
                    if key.index != index || key.node.mode != NodeMode::Tree {
                        continue;
                    }
                    if let Node::SplitPlaneNormal(SplitPlaneNormal { left, right, normal }) = NodeCodec::<D>::bytes_decode(v).unwrap() {
                        if normal.is_zero() {
                            continue;
                        }
                        let nv: Vec<f32> = normal.iter().collect();
                        for (child, sign) in [(left, -1.0f32), (right, 1.0f32)] {
                            let mut its = vec![];
                            items_under(db, &wtxn, index, child, &mut its);
                            for i in its {
                                if let Some(vec) = writer.item_vector(&wtxn, i).unwrap() {
                                    let m: f32 = vec.iter().zip(nv.iter()).map(|(a, b)| a * b).sum();
                                    if m * sign < 0.0 {
                                        bad = Some(format!("item {i} sits on the {} of split {} but its margin is {m}", if sign < 0.0 { "left" } else { "right" }, key.node.item));
                                    }
                                }
                            }
                        }
                    }
                }
                if let Some(b) = bad {
                    verdict.push(b);
                }
            }
            "expect_buckets_within" => {
                let cap: u64 = tok[1].parse().unwrap();
                for r in raw.iter(&wtxn).unwrap() {
                    let (k, v) = r.unwrap();
                    let key = KeyCodec::bytes_decode(k).unwrap();
                    if key.index == index && key.node.mode == NodeMode::Tree {
                        if let Node::Descendants(Descendants { descendants }) = NodeCodec::<D>::bytes_decode(v).unwrap() {
                            if descendants.len() > cap {
                                verdict.push(format!("bucket {} holds {} items, split_after is {cap}", key.node.item, descendants.len()));
                            }
                        }
                    }
                }
            }
            "expect_n_trees_at_least" => {
                let md = db.remap_data_type::<MetadataCodec>().get(&wtxn, &Key::metadata(index)).unwrap().unwrap();
                let n: usize = tok[1].parse().unwrap();
                if md.roots.len() < n {
                    verdict.push(format!("{} trees, expected at least {n}", md.roots.len()));
                }
            }
            "expect_n_trees" => {
                let md = db.remap_data_type::<MetadataCodec>().get(&wtxn, &Key::metadata(index)).unwrap().unwrap();
                let n: usize = tok[1].parse().unwrap();
                if md.roots.len() != n {
                    verdict.push(format!("{} trees after the build, {n} were requested explicitly", md.roots.len()));
                }
            }
            other => panic!("unknown scenario step {other}"),
        }
    }
    if verdict.is_empty() {
        println!("RESULT holds");
    } else {
        for v in &verdict {
            println!("RESULT violation: {v}");
        }
    }
}
